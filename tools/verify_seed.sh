#!/bin/bash
# usage: verify_seed.sh <seed dir with patch.diff and demo_test.go>
# Confirms in a scratch worktree: patch applies, builds, repo suite passes with it, demo fails with it and passes without.
d=$1; wt=/tmp/wt/verify-$$
export GOFLAGS=-mod=mod GOPROXY=off
git -C /repo worktree add -q --detach $wt HEAD || exit 2
trap "git -C /repo worktree remove --force $wt" EXIT
cd $wt
place=$(head -1 $d/demo_test.go | sed -n 's/.*place in: *\([^ ]*\).*/\1/p'); [ -z "$place" ] && place=.
git apply $d/patch.diff || { echo "RESULT patch does not apply"; exit 1; }
go build ./... || { echo "RESULT does not build"; exit 1; }
suite=fail
for a in 1 2 3 4 5; do
  out=$(go test -vet=off -count=1 -timeout 200s ./... 2>&1)
  if echo "$out" | grep -q "^FAIL\|^--- FAIL\|panic:"; then
     # pre-existing flaky hangs (measured on the original commit too): retry
     if echo "$out" | grep -q "test timed out" && echo "$out" | grep -q "rescheduleDrainBuffers (\|TestSaveLoadCache/ok ("; then continue; fi
     if echo "$out" | grep -q -- "--- FAIL: TestCache_Eviction/evict_wtinylfu" && [ $(echo "$out" | grep -c -- "^    --- FAIL\|^--- FAIL") -le 2 ]; then continue; fi
     echo "$out" | grep "FAIL\|panic" | head -5; break
  else suite=pass; break; fi
done
cp $d/demo_test.go $place/zz_seed_demo_test.go
tests=$(grep -o '^func Test[A-Za-z0-9_]*' $d/demo_test.go | sed 's/func //' | paste -sd'|')
[ -z "$tests" ] && { echo "RESULT no test functions in demo"; exit 1; }
demo_with=$(cd $place && go test -vet=off -count=1 -timeout 300s -run "^($tests)\$" . 2>&1 | tail -3 | tr '\n' ' ')
git apply -R $d/patch.diff
demo_without=$(cd $place && go test -vet=off -count=1 -timeout 300s -run "^($tests)\$" . 2>&1 | tail -3 | tr '\n' ' ')
rm -f $place/zz_seed_demo_test.go
w=fail; echo "$demo_with" | grep -q "^ok\|	ok\| ok " && ! echo "$demo_with" | grep -q FAIL && w=pass
wo=fail; echo "$demo_without" | grep -q "ok" && ! echo "$demo_without" | grep -q FAIL && wo=pass
echo "RESULT suite_with_patch=$suite demo_with_patch=$w demo_without_patch=$wo"
echo "  with: $demo_with"
echo "  without: $demo_without"
