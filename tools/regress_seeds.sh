#!/bin/bash
# usage: regress_seeds.sh [id...]   — re-runs every recorded seeded change against the check of the property it breaks
# (or, where that check cannot reach it, the first check recorded as catching it). Works on $VP_RUN_REPO if set
# (a `vp run --with-repo` snapshot), else on /repo. Prints one line per seed: CAUGHT / MISSED / SKIP.
cd "$(dirname "$0")/.." || exit 2
REPO=${VP_RUN_REPO:-/repo}
ids="$@"; [ -z "$ids" ] && ids=$(ls seeded)
git -C $REPO diff --quiet || { echo "$REPO has uncommitted changes"; exit 2; }
mkdir -p .build; rm -rf .build/evidence.keep; cp -r evidence .build/evidence.keep
trap "git -C $REPO checkout -- . ; rm -rf evidence && mv .build/evidence.keep evidence" EXIT
for id in $ids; do
  d=seeded/$id
  [ -f $d/patch.diff ] || continue
  prop=$(python3 - $d/meta.json <<'PY'
import json,sys
m=json.load(open(sys.argv[1]))
if str(m.get("status","")).startswith("superseded"): print("SKIP"); sys.exit()
c=m.get("caught_by_quick_checks") or m.get("caught_by") or []
b=m.get("breaks_property","")
print(b if (b in c or not c) else c[0])
PY
)
  if [ "$prop" = SKIP ]; then echo "SKIP $id (superseded)"; continue; fi
  if ! git -C $REPO apply $PWD/$d/patch.diff 2>/dev/null; then echo "NOAPPLY $id"; continue; fi
  out=$(./check $prop --tier quick 2>&1); rc=$?
  git -C $REPO checkout -- .
  if [ $rc -eq 1 ] && echo "$out" | grep -q "^VIOLATION property=$prop"; then
    echo "CAUGHT $id by $prop: $(echo "$out" | grep -m1 signature | cut -c1-120)"
  else
    echo "MISSED $id by $prop (exit $rc): $(echo "$out" | tail -1 | cut -c1-160)"
  fi
done
