#!/bin/bash
# usage: regress_seeds.sh [id...]   — re-runs every recorded seeded change against the check of the property it breaks
# (or, where that check cannot reach it, the first check recorded as catching it). Never touches /repo: each patch is
# applied to a scratch worktree of /repo's HEAD and the check builds against it (VERIF_REPO); results, evidence and
# replays stay in this directory's .build (VERIF_DIR = a scratch copy). Prints one line per seed: CAUGHT / MISSED / SKIP.
cd "$(dirname "$0")/.." || exit 2
SRC=$PWD
ids="$@"; [ -z "$ids" ] && ids=$(ls seeded)
export GOFLAGS=-mod=mod GOPROXY=off GOTOOLCHAIN=auto; unset GOSUMDB
wt=/tmp/rwt-$$; vd=/tmp/rvd-$$
mkdir -p $vd && rsync -a --exclude .git --exclude .build --exclude replays --exclude seeded --exclude evidence --exclude bin $SRC/ $vd/
mkdir -p $vd/evidence $vd/replays $vd/bin
(cd $vd/harness && go build -o ../bin/vcheck ./cmd/vcheck) || exit 2
git -C /repo worktree add -q --detach $wt HEAD || exit 2
trap "git -C /repo worktree remove --force $wt; rm -rf $vd" EXIT
for id in $ids; do
  d=seeded/$id
  [ -f $d/patch.diff ] || continue
  prop=$(python3 - $d/meta.json <<'PY'
import json,sys
m=json.load(open(sys.argv[1]))
if str(m.get("status","")).startswith("superseded"): print("SKIP"); sys.exit()
c=m.get("caught_by_quick_checks") or m.get("caught_by") or []
b=m.get("breaks_property","")
print(b if (b in c or not c) else c[0])
PY
)
  if [ "$prop" = SKIP ]; then echo "SKIP $id (superseded)"; continue; fi
  if ! git -C $wt apply $SRC/$d/patch.diff 2>/dev/null; then echo "NOAPPLY $id"; continue; fi
  out=$(cd $vd && VERIF_DIR=$vd VERIF_REPO=$wt bin/vcheck $prop --tier quick 2>&1); rc=$?
  git -C $wt checkout -q -- . ; git -C $wt clean -fdq
  if [ $rc -eq 1 ] && echo "$out" | grep -q "^VIOLATION property=$prop"; then
    echo "CAUGHT $id by $prop: $(echo "$out" | grep -m1 signature | cut -c1-120)"
  elif [ $rc -eq 2 ]; then
    echo "NOBUILD $id (the patch applies but the tree does not build with it): $(echo "$out" | tail -1 | cut -c1-160)"
  else
    echo "MISSED $id by $prop (exit $rc): $(echo "$out" | tail -1 | cut -c1-160)"
  fi
done
