#!/usr/bin/env python3
"""Writes /verif/MANIFEST.json from the table below (kept here so the manifest stays consistent)."""
import json, subprocess, os

V = "/verif"
hooks_commits = subprocess.run(["git", "-C", "/repo", "log", "--format=%H %s"], capture_output=True, text=True).stdout.splitlines()
hook_shas = [l.split()[0] for l in hooks_commits if l.split(" ", 1)[1].startswith("verif hooks")]

SEQ = "harness/internal/seq"
CONC = "harness/internal/conc"
COMP = "harness/internal/comp"

# id: (claimed, engine, technique, level text, level note, design ref)
P = {
 "C01": (True, "seq", "differential runtime monitor: reference model replayed over the ordered callback log of generated sequences",
   "Held on the generated sequences only: every return value, entry, iterator and deletion event of each operation is compared with a map-with-deadlines model after every operation, over hostile configurations (all size/expiry/refresh kinds, tiny maxima, deadline-exact clock moves).",
   "The model in harness/internal/seq/model.go is the specification as read from the property; inputs are sampled, not enumerated.", "4/C01"),
 "C03": (True, "seq", "differential runtime monitor with expired-but-unswept state forcing (manual clock moved exactly onto deadlines) + concurrent phased trials in which every exposed value is compared with its deadline; race detector; persistence round trips under an expiry policy (nothing expired at the load time is loaded); iteration with writes from the loop body (nothing yielded may have reached its deadline)",
   "Held on the explored sequences: every public operation is applied to keys whose deadline has been reached but which maintenance has not removed, and any exposure of such a value (return value, previous value, iterator, revival) is a violation.",
   "Clock moves only between operations (manual clock); model trusted.", "4/C03"),
 "C07": (True, "seq", "online monitor over deletion events: each Overflow/Expiration event is judged against the model's total weight / deadline at that moment",
   "Held on the explored sequences: an automatic removal is accepted only if the model's physical weight total exceeded the maximum (or the entry alone does) respectively the deadline had passed; zero-weight evictions and Overflow without a bound are violations.",
   "For multi-install operations of unweighted caches the sound upper bound of the total is used.", "4/C07"),
 "C10": (True, "seq", "differential runtime monitor over loader-controlled outcomes (value, error, ErrNotFound, panic, partial/extra/empty bulk maps), no-op computations run from inside loaders, cancelled contexts; slow loaders (the manual clock advances inside the loader); own-executor scenarios (one caller goroutine, maintenance on the default executor: a successful load must be cached once the executor is idle)",
   "Held on the explored sequences: (result, error), loader argument lists and the cache contents after every Get/BulkGet equal the model's.",
   "Loader outcomes are driven by the harness; bulk error outcomes return no partial map.", "4/C10"),
 "C11": (True, "seq", "differential runtime monitor around refresh deadlines with a same-goroutine executor + concurrent scenarios with a gated loader (readers during an in-flight reload, a second explicit refresh joining it, refresh messages judged at quiescence); race detector; swap scenarios (a reloaded value is fresh from the moment it is visible: Reload is never handed a value that a reload produced)",
   "Held on the explored sequences: stale reads return the cached value and hand off exactly one reload, reload outcomes map to install / keep / remove, manual Refresh delivers exactly one message (nil channel without a refresh policy).",
   "Executor runs tasks inline; reload tasks whose loader panics are not judged (nothing is promised for them).", "4/C11"),
 "C12": (True, "seq", "differential runtime monitor on ExpiresAtNano/RefreshableAtNano after every operation, durations up to MaxInt64, three clock origins",
   "Held on the explored sequences: after every operation each key's deadlines equal operation time + the policy's duration with saturation, and visibility flips exactly at the deadline.",
   "Durations are drawn in [1ns, MaxInt64]; calculators returning <= 0 are outside the stated quantifier.", "4/C12"),
 "C13": (True, "seq", "runtime monitor of the sweep rule at every CleanUp (entries older than one tick must be gone and reported as expired) over generated sequences, writer-parked-in-NowNano schedules, reader-versus-sweep schedules (reader parked in the clock, released at yield points inside the maintenance pass) and deadline-extension scenarios; size-eviction variant of the reader schedules; structural audit after CleanUp (every table node has exactly one timer)",
   "Held on the explored sequences: TTLs from ns to years, clock jumps up to many wheel revolutions; entries whose deadline was moved backwards are exempt (the property's proviso).",
   "Tick = 2^30 ns; sequential schedules plus writer/maintenance clock-parked schedules.", "4/C13"),
 "C19": (True, "seq", "round-trip differential monitor: source cache driven by a generated sequence, SaveCacheTo, clock offset, LoadCacheFrom into an empty cache with equal/larger/smaller maximum; a third of the round trips through SaveCacheToFile / LoadCacheFromFile (new directory, or over an older and larger snapshot)",
   "Held on the explored round trips: loaded entries are a subset of the saved unexpired ones with identical value, weight and ExpiresAtNano (RefreshableAtNano identical when in the future, due otherwise); everything is loaded when it fits.",
   "Calculators and weigher are pure functions of key/value so source and target agree; gob encoding itself is trusted.", "4/C19"),
 "C20": (True, "seq", "differential runtime monitor: Stats() snapshot compared with model tallies after every operation; counters sampled for monotonicity under concurrency",
   "Held on the explored histories: hits/misses per counting operation, load successes/failures per loader invocation by outcome, evictions/weight paired with Overflow/Expiration events.",
   "A panicking compute function is not counted as a lookup (the call does not complete).", "4/C20"),
 "C02": (True, "conc", "linearizability checking of recorded concurrent histories (porcupine v1.3.0, per key; loaders answering value or not-found, cancelled contexts) + callback counter + exact read-back of churn keys during table growth + Go race detector, with PRNG delays at verif yield points; late-extension scenarios (a reader parked in ExpireAfterRead extends the deadline of a node a writer has just judged expired); trials with expiring entries and a manual clock moved by the workers, checked (porcupine) against a map-with-deadlines model in which every operation may use any clock value between the readings taken before its call and after its return; several churn goroutines filling the table at once (yield point map.resize.waited)",
   "Held on the recorded histories: each key's sub-history (explicit operations, loader-backed Get split into read-miss and install, automatic removals as operations bounded by the two handlers) has a linearization; compute functions ran exactly once.",
   "Schedules are sampled; checker timeouts are reported as inconclusive; quiet reads and iterators are not part of the histories.", "4/C02"),
 "C04": (True, "conc", "quiescence monitor: bound on the weights of All() after one CleanUp, Overflow events of zero-weight values, VerifAudit weightedSize <= maximum; trials with expiry on a worker-driven manual clock and with a stalled executor (full write buffer); race detector; size-eviction variant of the reader-versus-sweep schedules judged by the bound after SetMaximum(0)",
   "Held on the explored concurrent trials (inserts, weight-changing updates, reads, invalidations, SetMaximum; sync / async / default executors; delays between table update and write-buffer publish).",
   "Judged only after all calls returned, the executor is idle and exactly one CleanUp ran.", "4/C04"),
 "C05": (True, "conc", "quiescence monitor: view equalities (WeightedSize, EstimatedSize, Hottest/Coldest vs All) + white-box structural audit of deques, weight totals and timer wheel through VerifAudit; race detector; late-extension scenarios; the same structural audit in the sequential engine after every CleanUp; shortened-deadline scenarios (SetExpiresAfter between two CleanUps with no dropped read event: the views must agree a tick after the new deadlines)",
   "Held on the explored concurrent trials: every table node is alive and linked exactly once in the queue its flag names, per-queue weight sums equal the running totals, nothing dead is linked.",
   "The audit reads internal state through the verif-tag export under the eviction lock; schedules are sampled.", "4/C05"),
 "C06": (True, "conc", "offline checker over both deletion-handler logs: exactly-once, conservation (written = present + reported), handler agreement, cause explanation, per-key order along the install chain (concurrent trials with a size bound, not-found loaders and a stalled-executor variant; phased trials with expiry) + exact per-operation event multiset in the sequential engine incl. the queued-executor mode; race detector; late-extension scenarios (return value, atomic cause and deferred cause must agree)",
   "Held on the explored trials, sequential (exact expected event multiset per operation, in the C01 engine) and concurrent (replacement racing with eviction, InvalidateAll racing with writers, sync and async executors).",
   "Unique values make the histories unambiguous; OnDeletion is judged after the executor is idle.", "4/C06"),
 "C14": (True, "conc", "quiescence audit without any further cache call (VerifAudit: drain status idle, write buffer empty, weightedSize <= maximum, notifications delivered) over thousands of short trials with the default executor made countable, a racing-pairs stress on one long-lived cache (audit after each of 10^5+ rounds) and full-write-buffer scenarios under a lock-holding iteration; delays at the drain-protocol yield points; racing pairs with a read of an expired unswept entry (idle entry into the drain scheduling); full-buffer scenarios with a tight release; InvalidateAll taking the eviction lock over from an iteration with a nearly full write buffer while late writers publish",
   "Held on the explored trials: liveness is restated as a safety property of the quiescent state; all four drain states and both CAS failure paths are exercised (hook log).",
   "For-all-interleavings is sampled; VerifSetDefaultExecutor replaces the package default executor only to count its goroutines.", "4/C14"),
 "C08": (True, "conc", "runtime monitor over loader entry/exit intervals and call results of concurrent bursts (single-flight overlap rule, waiter results, every requested key of a BulkGet accounted for, exactly-one refresh message, no in-flight record left, stall watchdog with goroutine dump); race detector; calls made without a loader (nil interface) must leave no in-flight record behind",
   "Held on the explored bursts of Get/BulkGet/Refresh/BulkRefresh over overlapping key sets with every loader outcome (value, error, ErrNotFound, panic, partial/extra bulk maps); pure-load bursts admit no overlap at all, mixed bursts admit an overlap only if a write or eviction activity can explain it.",
   "Termination is decided as bounded progress (no call completes for 40 s = stall, with the goroutine dump as witness); refresh tasks whose own loader panics are not awaited.", "4/C08"),
 "C09": (True, "conc", "loader-controlled scenario enumeration (load kind x write kind x write position, parked at the load.beforeInstall yield point) + straddle scenarios (the writer parked inside its Weigher / calculator / atomic handler, i.e. before publication, while the load starts) + jittered stress, oracle: a loaded value is never observed as current after an effective write called after the loader entry; scenarios whose load fails: the refresh time of the written entry must not move",
   "Held on the explored scenarios and stress histories. Defect D8 (a write straddling the start of the load), first recorded as a known finding, was repaired in /repo (53c1460); its witness family stays in the check as a violation detector.",
   "A load is taken to be in flight from its loader entry (the latest start a black box can see), so the oracle never demands more than the statement.", "4/C09"),
 "C15": (True, "comp", "component stress of the real table (internal/hashmap through a verif-tag wrapper): porcupine per hot key, stable-key presence under growth/shrink, Range once-only / nothing removed before start, Size at quiescence, Clear; cache-level iteration under churn and InvalidateAll under write load; race detector (+ asan in the thorough tier); degraded key hashes through the hook VerifSetHash (long bucket chains, equal meta bytes); keys whose value is replaced during cache-level iterations; Clear under concurrent growth; stampede trials (8-32 goroutines fill an empty table at the same moment, slow update functions, yield point map.resize.waited)",
   "Held on the explored trials with churn goroutines that grow and shrink the table repeatedly and initial capacities from 0 to 10^4; observed growths/shrinks and chain lengths are reported.",
   "Hash collisions within a chain cannot be forced (seeded maphash): chains get long only by load.", "4/C15"),
 "C16": (True, "comp", "component stress of the real MPSC write buffer: exactly-once, per-producer order, justified refusals, Size <= capacity, sequential capacity sweep over (initial,max) pairs; race detector (+ asan); cache-level scenarios: consumption order with a stalled executor and a full buffer, a refused-then-retried offer after the buffer was filled from an iteration body",
   "Held on the explored trials with 1-16 producers, delays between index CAS and element publication and inside resize.",
   "A refusal is judged with the sound bound (pushes begun before it returned minus pops completed before it was called >= capacity).", "4/C16"),
 "C17": (True, "comp", "component stress of the real striped ring buffer: delivered is a subset of recorded, at most once, bounded length, complete after quiescence; cache-level use-site scenario (readers + InvalidateAll/iterations/SetMaximum, buffer empty after a quiescent CleanUp); race detector (+ asan); bursts on new buffers (recorders released at the same instant, yield point striped.slotEmpty)",
   "Held on the explored trials with many recorders against one drainer and delays between tail CAS and slot publication / under the busy flag; the cache-level half (results unchanged when reads are dropped) is covered by the sequential engine, whose read buffer saturates between maintenance runs.",
   "Stripe selection uses the runtime's fastrand: which stripes collide is not controlled.", "4/C17"),
 "C18": (True, "comp", "reference-count monitor on thousands of real sketch instances (fresh hash seed each) admission-rule check with injected random words, and eviction passes of a real policy followed in lock step (every candidate-versus-victim decision judged)",
   "Held on the explored cases: estimates never under-count within a sampling period, never exceed 15, are zero before ensureCapacity, are exactly halved by an aging step; admit() follows the documented rule for every generated (candidate, victim, random word).",
   "Sampling-period boundaries are read from the sketch's size counter through the verif-tag wrapper.", "4/C18"),
}
NOT_YET = {
 "C02": "check under construction in this session (concurrent engine)",
 "C04": "check under construction in this session (concurrent engine)",
 "C05": "check under construction in this session (concurrent engine)",
 "C06": "check under construction in this session (concurrent engine)",
 "C08": "check under construction in this session (concurrent engine)",
 "C09": "check under construction in this session (concurrent engine)",
 "C14": "check under construction in this session (concurrent engine)",
 "C15": "check under construction in this session (component harness)",
 "C16": "check under construction in this session (component harness)",
 "C17": "check under construction in this session (component harness)",
 "C18": "check under construction in this session (component harness)",
 "C19": "check under construction in this session (persistence round trips)",
 "C20": "check under construction in this session (statistics)",
}
try:
    exec(open(os.path.join(V, "tools", "manifest_table.py")).read())
except FileNotFoundError:
    pass

checks = []
for pid in sorted(P):
    claimed, engine, technique, text, note, ref = P[pid]
    if not claimed:
        continue
    checks.append({
        "property_id": pid,
        "quick_cmd": f"./check {pid} --tier quick",
        "thorough_cmd": f"./check {pid} --tier thorough",
        "evidence_file": f"/verif/evidence/{pid}.json",
        "replay_cmd_template": f"./check {pid} --replay {{path}}",
        "engine": engine,
        "level_claimed": {"category": "exploration", "text": text, "design_ref": "DESIGN.md " + ref},
        "level_note": note,
        "technique": technique,
    })
m = {
    "version": 1,
    "setup_cmd": "./setup.sh",
    "hooks": {
        "guard": "verif",
        "enable": "go build -tags verif (the harness module replaces github.com/maypok86/otter/v2 with /repo)",
        "baseline_off_cmd": "cd /repo && for m in . ./plugin/pslog; do (cd $m && GOFLAGS=-mod=mod GOPROXY=off go test -json -vet=off -count=1 -timeout 25m ./...); done",
        "source_commits": hook_shas,
        "add_only": True,
    },
    "engines": [
        {"name": "seq", "path": "harness/internal/seq", "serves_properties": [p for p in sorted(P) if P[p][0] and P[p][1] == "seq"],
         "kind_free_text": "single-goroutine differential monitor: real cache + manual clock + inline executor; every callback logged; reference model replays the log"},
        {"name": "conc", "path": "harness/internal/conc", "serves_properties": [p for p in sorted(P) if P[p][0] and P[p][1] == "conc"],
         "kind_free_text": "concurrent stress with recorded histories: porcupine linearizability, exactly-once/conservation checkers, quiescence audit via VerifAudit, race detector"},
        {"name": "comp", "path": "harness/internal/comp", "serves_properties": [p for p in sorted(P) if P[p][0] and P[p][1] == "comp"],
         "kind_free_text": "component harnesses on the internal table, MPSC queue, striped ring buffer and sketch through verif-tag wrappers"},
    ],
    "checks": checks,
    "notes": "All checks are runtime monitors over executions of the real code built from /repo's working tree with -tags verif. KNOWN_FINDINGS.txt lists repaired defects (fixed:) and open findings (finding:).",
    "not_applicable": [{"property_id": k, "reason": v} for k, v in sorted(NOT_YET.items()) if not (k in P and P[k][0])],
}
json.dump(m, open(os.path.join(V, "MANIFEST.json"), "w"), indent=1)
print("claimed", len(checks), "not_applicable", len(m["not_applicable"]))
