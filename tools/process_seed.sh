#!/bin/bash
# usage: process_seed.sh <dir with patch.diff demo_test.go notes.md> <property>...  — verify_seed + quick checks in scratch copies
d=$(readlink -f $1); shift
echo "### $(head -1 $d/notes.md)"
mkdir -p /tmp/wt
/verif/tools/verify_seed.sh $d 2>&1 | grep -A2 "^RESULT"
/verif/tools/try_seed_wt.sh $d/patch.diff "$@"
