#!/bin/bash
# usage: process_seed.sh <dir with patch.diff demo_test.go notes.md> <property>...
# verify_seed + the quick checks of the named properties in scratch copies (VERIF_SEED=1), then the first
# property once more at VERIF_SEED=2 (a catch that depends on the seed is a flaky catch).
d=$(readlink -f $1); shift
echo "### $(head -1 $d/notes.md)"
mkdir -p /tmp/wt
/verif/tools/verify_seed.sh $d 2>&1 | grep -A2 "^RESULT"
/verif/tools/try_seed_wt.sh $d/patch.diff "$@"
echo "--- second seed"
VERIF_SEED=2 /verif/tools/try_seed_wt.sh $d/patch.diff "$1" | grep "^== "
