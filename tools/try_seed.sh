#!/bin/bash
# usage: try_seed.sh <patch.diff> <property>...   — applies the patch to /repo, runs the quick checks, reverts.
p=$1; shift
cd /repo && git diff --quiet || { echo "/repo has uncommitted changes"; exit 2; }
git -C /repo apply $p || { echo "patch does not apply"; exit 2; }
# evidence files must only ever describe runs on the unchanged tree: keep them aside while the patch is applied
rm -rf /verif/.build/evidence.keep && cp -r /verif/evidence /verif/.build/evidence.keep
trap "git -C /repo checkout -- . ; rm -rf /verif/evidence && mv /verif/.build/evidence.keep /verif/evidence" EXIT
for prop in "$@"; do
  out=$(cd /verif && ./check $prop --tier quick 2>&1)
  rc=$?
  echo "== $prop exit=$rc $(echo "$out" | grep -c '^VIOLATION') violation line(s)"
  echo "$out" | grep -A2 '^VIOLATION' | head -6 | cut -c1-400
  echo "$out" | tail -1 | cut -c1-200
done
