#!/usr/bin/env python3
"""record_seed.py <src dir> <id> <round> <property> <verify result line> <caught_by comma list> <checks run> <history>

Copies a confirmed seeded change (patch.diff, demo_test.go, notes.md) into /verif/seeded/<id>/ and writes meta.json.
"""
import json, os, re, shutil, sys

src, sid, rnd, prop, verify, caught, checks, history = sys.argv[1:9]
dst = os.path.join(os.path.dirname(os.path.abspath(__file__)), "..", "seeded", sid)
os.makedirs(dst, exist_ok=True)
for f in ("patch.diff", "demo_test.go", "notes.md"):
    p = os.path.join(src, f)
    if os.path.exists(p):
        shutil.copy(p, os.path.join(dst, f))
title, needs = sid, ""
notes = os.path.join(src, "notes.md")
if os.path.exists(notes):
    text = open(notes).read()
    m = re.search(r"^#\s*(.+)$", text, re.M)
    if m:
        title = m.group(1).strip()
    m = re.search(r"^##[^\n]*(needs|manifest)[^\n]*\n(.*?)(?=^## |\Z)", text, re.M | re.S | re.I)
    if m:
        needs = " ".join(m.group(2).split())[:900]
files = sorted(set(re.findall(r"^diff --git a/(\S+)", open(os.path.join(src, "patch.diff")).read(), re.M)))
meta = {
    "id": sid,
    "round": int(rnd),
    "title": title,
    "breaks_property": prop,
    "files_changed": files,
    "what_it_needs_to_manifest": needs,
    "produced_by": "independent sub-agent (round %s: given only the property text, the one-line titles of earlier changes to avoid, and its own scratch worktree; told to prefer changes that need an interleaving, a rare configuration or a multi-step history), no access to /verif" % rnd,
    "confirmed": {"how": "tools/verify_seed.sh in a fresh scratch worktree of /repo HEAD (removed afterwards)", "result": verify},
    "checks_run": checks,
    "caught_by_quick_checks": [c for c in caught.split(",") if c],
    "history": history,
}
json.dump(meta, open(os.path.join(dst, "meta.json"), "w"), indent=1)
print("recorded", sid, "->", dst)
