#!/bin/bash
# usage: sweep.sh <seed> [props...]  — runs the quick tier of every check at VERIF_SEED=<seed> in a scratch copy of
# this directory (never touches ./evidence), against /repo. One line per check; exit 1 if any check is not silent.
cd "$(dirname "$0")/.." || exit 2
seed=$1; shift
props="$@"; [ -z "$props" ] && props="C01 C02 C03 C04 C05 C06 C07 C08 C09 C10 C11 C12 C13 C14 C15 C16 C17 C18 C19 C20"
export GOFLAGS=-mod=mod GOPROXY=off GOTOOLCHAIN=auto; unset GOSUMDB
vd=/tmp/sweep-$$
mkdir -p $vd && rsync -a --exclude .git --exclude .build --exclude replays --exclude seeded --exclude evidence --exclude bin ./ $vd/
mkdir -p $vd/evidence $vd/replays $vd/bin
(cd $vd/harness && go build -o ../bin/vcheck ./cmd/vcheck) || exit 2
bad=0
for p in $props; do
  out=$(cd $vd && VERIF_SEED=$seed VERIF_DIR=$vd bin/vcheck $p --tier ${TIER:-quick} 2>&1); rc=$?
  echo "seed=$seed $p rc=$rc $(echo "$out" | tail -1 | cut -c1-150)"
  if [ $rc -ne 0 ] || echo "$out" | grep -q "^VIOLATION"; then bad=1; echo "$out" | grep -A2 "^VIOLATION" | head -9 | cut -c1-700; mkdir -p /verif/.build/sweepfail && cp -r $vd/replays /verif/.build/sweepfail/replays-$seed-$p 2>/dev/null; fi
done
rm -rf $vd
exit $bad
