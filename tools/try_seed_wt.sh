#!/bin/bash
# usage: try_seed_wt.sh <patch.diff> <property>...
# Like try_seed.sh, but never touches /repo or /verif's evidence: the patch is applied to a scratch worktree of
# /repo's HEAD, the harness is copied to a scratch directory, and the quick checks run there (VERIF_DIR, VERIF_REPO).
# Several of these can run side by side. Everything is removed afterwards.
p=$(readlink -f $1); shift
id=$$
wt=/tmp/swt-$id; vd=/tmp/svd-$id
git -C /repo worktree add -q --detach $wt HEAD || exit 2
trap "git -C /repo worktree remove --force $wt; rm -rf $vd" EXIT
git -C $wt apply $p || { echo "patch does not apply"; exit 2; }
mkdir -p $vd && rsync -a --exclude .git --exclude .build --exclude replays --exclude seeded --exclude evidence /verif/ $vd/
mkdir -p $vd/evidence $vd/replays
export GOFLAGS=-mod=mod GOPROXY=off GOTOOLCHAIN=auto; unset GOSUMDB
for prop in "$@"; do
  out=$(cd $vd && VERIF_DIR=$vd VERIF_REPO=$wt bin/vcheck $prop --tier quick 2>&1)
  rc=$?
  echo "== $prop exit=$rc $(echo "$out" | grep -c '^VIOLATION') violation line(s)"
  echo "$out" | grep -A2 '^VIOLATION' | head -6 | cut -c1-400
  echo "$out" | tail -1 | cut -c1-200
done
