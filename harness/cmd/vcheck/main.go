// vcheck is the driver: it rebuilds the workload binary from /repo's working tree (build tag
// verif), runs it in child processes, merges what they observed, applies KNOWN_FINDINGS.txt,
// writes evidence/<id>.json and prints VIOLATION / KNOWN-FINDING lines.
package main

import (
	"bufio"
	"bytes"
	"encoding/binary"
	"encoding/json"
	"flag"
	"fmt"
	"os"
	"os/exec"
	"path/filepath"
	"regexp"
	"sort"
	"strconv"
	"strings"
	"sync"
	"syscall"
	"time"

	"otterverif/internal/core"
)

type variant struct {
	Name       string // plain | race | asan | race126
	Shards     int
	Parallel   int // children at once
	Gomaxprocs int // 0 = leave
	TimeoutS   int
}

type plan struct {
	Variants []variant
}

var verifDir = "/verif"

func seqPlan(tier string) plan {
	if tier == "thorough" {
		return plan{Variants: []variant{{Name: "plain", Shards: 16, Parallel: 16, Gomaxprocs: 2, TimeoutS: 3000}}}
	}
	return plan{Variants: []variant{{Name: "plain", Shards: 16, Parallel: 16, Gomaxprocs: 2, TimeoutS: 900}}}
}

func concPlan(tier string) plan {
	if tier == "thorough" {
		return plan{Variants: []variant{
			{Name: "plain", Shards: 8, Parallel: 4, Gomaxprocs: 0, TimeoutS: 3000},
			{Name: "race", Shards: 8, Parallel: 4, Gomaxprocs: 0, TimeoutS: 3000},
			{Name: "race126", Shards: 4, Parallel: 4, Gomaxprocs: 0, TimeoutS: 3000},
		}}
	}
	return plan{Variants: []variant{
		{Name: "plain", Shards: 4, Parallel: 4, Gomaxprocs: 0, TimeoutS: 900},
		{Name: "race", Shards: 4, Parallel: 4, Gomaxprocs: 0, TimeoutS: 900},
	}}
}

// concPlan8: the quick tier of the trial-heavy checks runs eight shards at a time (their trials wait more than they compute)
func concPlan8(tier string) plan {
	p := concPlan(tier)
	if tier != "thorough" {
		for i := range p.Variants {
			p.Variants[i].Shards, p.Variants[i].Parallel = 8, 8
		}
	}
	return p
}

func compPlan(tier string) plan {
	p := concPlan(tier)
	if tier == "thorough" {
		p.Variants = append(p.Variants, variant{Name: "asan", Shards: 4, Parallel: 4, TimeoutS: 3000})
	}
	return p
}

var plans = map[string]func(string) plan{
	"C01": seqPlan, "C03": concPlan, "C07": seqPlan, "C10": seqPlan, "C11": concPlan, "C12": seqPlan,
	"C13": seqPlan, "C19": seqPlan, "C20": concPlan, "C18": seqPlan,
	"C02": concPlan8, "C04": concPlan8, "C05": concPlan8, "C06": concPlan8, "C08": concPlan, "C09": concPlan, "C14": concPlan,
	"C15": compPlan, "C16": compPlan, "C17": compPlan,
}

type finding struct {
	Fixed     bool
	Property  string
	Signature string
	Text      string
}

func loadFindings() []finding {
	var out []finding
	f, err := os.Open(filepath.Join(verifDir, "KNOWN_FINDINGS.txt"))
	if err != nil {
		return nil
	}
	defer f.Close()
	sc := bufio.NewScanner(f)
	for sc.Scan() {
		line := strings.TrimSpace(sc.Text())
		if line == "" || strings.HasPrefix(line, "#") {
			continue
		}
		var fd finding
		switch {
		case strings.HasPrefix(line, "finding:"):
			line = strings.TrimSpace(strings.TrimPrefix(line, "finding:"))
		case strings.HasPrefix(line, "fixed:"):
			fd.Fixed = true
			line = strings.TrimSpace(strings.TrimPrefix(line, "fixed:"))
		default:
			continue
		}
		for _, tok := range strings.Fields(line) {
			if strings.HasPrefix(tok, "property=") {
				fd.Property = strings.TrimPrefix(tok, "property=")
			}
			if strings.HasPrefix(tok, "signature=") {
				fd.Signature = strings.TrimPrefix(tok, "signature=")
			}
		}
		fd.Text = line
		out = append(out, fd)
	}
	return out
}

func goEnv(toolchain string) []string {
	env := []string{}
	for _, e := range os.Environ() {
		if strings.HasPrefix(e, "GOFLAGS=") || strings.HasPrefix(e, "GOPROXY=") || strings.HasPrefix(e, "GOSUMDB=") ||
			strings.HasPrefix(e, "GOTOOLCHAIN=") || strings.HasPrefix(e, "GOMAXPROCS=") || strings.HasPrefix(e, "GORACE=") {
			continue
		}
		env = append(env, e)
	}
	env = append(env, "GOFLAGS=-mod=mod", "GOPROXY=off", "GOTOOLCHAIN="+toolchain)
	return env
}

func build(prop string, v variant, buildDir string) (string, error) {
	out := filepath.Join(buildDir, "vwork-"+prop+"-"+v.Name)
	args := []string{"build", "-tags", "verif"}
	gobin := "go"
	toolchain := "auto"
	switch v.Name {
	case "race":
		args = append(args, "-race")
	case "race126":
		args = append(args, "-race")
		gobin = "go1.26"
		toolchain = "local"
	case "asan":
		args = append(args, "-asan")
	}
	// VERIF_REPO (tooling only, never set by the registered commands): build against another copy of
	// the repository (a scratch worktree carrying a seeded change) without touching /repo.
	if alt := os.Getenv("VERIF_REPO"); alt != "" {
		mod, err := os.ReadFile(filepath.Join(verifDir, "harness", "go.mod"))
		if err != nil {
			return "", err
		}
		mod = bytes.Replace(mod, []byte("=> /repo"), []byte("=> "+alt), 1)
		altMod := filepath.Join(buildDir, "alt.mod")
		os.WriteFile(altMod, mod, 0o644)
		sum, _ := os.ReadFile(filepath.Join(verifDir, "harness", "go.sum"))
		os.WriteFile(filepath.Join(buildDir, "alt.sum"), sum, 0o644)
		args = append(args, "-modfile", altMod)
	}
	args = append(args, "-o", out, "./cmd/vwork")
	cmd := exec.Command(gobin, args...)
	cmd.Dir = filepath.Join(verifDir, "harness")
	cmd.Env = goEnv(toolchain)
	var buf bytes.Buffer
	cmd.Stdout = &buf
	cmd.Stderr = &buf
	if err := cmd.Run(); err != nil {
		return "", fmt.Errorf("%s %s: %v\n%s", gobin, strings.Join(args, " "), err, buf.String())
	}
	return out, nil
}

type childOut struct {
	res      *core.Result
	logPath  string
	raceLogs []string
	timedOut bool
	exitErr  error
}

func runChild(bin, prop, tier string, v variant, seed uint64, shard int, outDir, replay string) childOut {
	base := filepath.Join(outDir, fmt.Sprintf("%s-%s-%d", prop, v.Name, shard))
	resPath := base + ".json"
	logPath := base + ".log"
	os.Remove(resPath)
	matches, _ := filepath.Glob(base + ".racelog*")
	for _, m := range matches {
		os.Remove(m)
	}
	args := []string{
		"-prop", prop, "-tier", tier, "-variant", v.Name, "-seed", strconv.FormatUint(seed, 10),
		"-shard", strconv.Itoa(shard), "-nshards", strconv.Itoa(v.Shards), "-out", resPath,
		"-replaydir", filepath.Join(verifDir, "replays"),
	}
	if replay != "" {
		args = append(args, "-replay", replay)
	}
	cmd := exec.Command(bin, args...)
	logf, err := os.Create(logPath)
	if err != nil {
		return childOut{exitErr: err}
	}
	defer logf.Close()
	cmd.Stdout = logf
	cmd.Stderr = logf
	env := goEnv("auto")
	if v.Gomaxprocs > 0 {
		env = append(env, "GOMAXPROCS="+strconv.Itoa(v.Gomaxprocs))
	}
	if strings.HasPrefix(v.Name, "race") {
		env = append(env, "GORACE=halt_on_error=0 log_path="+base+".racelog")
	}
	if v.Name == "asan" {
		env = append(env, "ASAN_OPTIONS=detect_leaks=0:abort_on_error=0")
	}
	cmd.Env = env
	co := childOut{logPath: logPath}
	if err := cmd.Start(); err != nil {
		co.exitErr = err
		return co
	}
	done := make(chan error, 1)
	go func() { done <- cmd.Wait() }()
	select {
	case err := <-done:
		co.exitErr = err
	case <-time.After(time.Duration(v.TimeoutS) * time.Second):
		co.timedOut = true
		cmd.Process.Signal(syscall.SIGQUIT)
		select {
		case <-done:
		case <-time.After(10 * time.Second):
			cmd.Process.Kill()
			<-done
		}
	}
	if data, err := os.ReadFile(resPath); err == nil {
		var r core.Result
		if json.Unmarshal(data, &r) == nil {
			co.res = &r
		}
	}
	co.raceLogs, _ = filepath.Glob(base + ".racelog*")
	return co
}

var raceFrameRe = regexp.MustCompile(`(?m)^\s+(github\.com/maypok86/otter/v2[^\s(]*)\(`)

var accessRe = regexp.MustCompile(`(?m)^(?:Read|Write|Previous read|Previous write) at [^\n]*\n((?:\s+[^\n]+\n)+)`)

// harnessOnly reports whether both racing accesses are made by harness code (first non-runtime
// frame of each access stack is in otterverif/...): then the race is the harness's own.
func harnessOnly(report string) bool {
	ms := accessRe.FindAllStringSubmatch(report, 2)
	if len(ms) < 2 {
		return false
	}
	for _, m := range ms {
		first := ""
		for _, l := range strings.Split(m[1], "\n") {
			l = strings.TrimSpace(l)
			if l == "" || strings.HasPrefix(l, "/") || strings.HasPrefix(l, "<") {
				continue
			}
			if strings.HasPrefix(l, "runtime.") || strings.HasPrefix(l, "sync.") || strings.HasPrefix(l, "sync/atomic.") {
				continue
			}
			first = l
			break
		}
		if !strings.HasPrefix(first, "otterverif/") {
			return false
		}
	}
	return true
}

// raceReports splits a race log into reports and returns a dedup key per report:
// the otter functions on the two stacks (line numbers stripped).
func raceReports(path string) map[string]string {
	data, err := os.ReadFile(path)
	if err != nil {
		return nil
	}
	out := map[string]string{}
	parts := strings.Split(string(data), "WARNING: DATA RACE")
	for _, p := range parts[1:] {
		fr := raceFrameRe.FindAllStringSubmatch(p, -1)
		seen := map[string]bool{}
		var fns []string
		for _, f := range fr {
			if !seen[f[1]] {
				seen[f[1]] = true
				fns = append(fns, f[1])
			}
		}
		if len(fns) > 4 {
			fns = fns[:4]
		}
		key := strings.Join(fns, "|")
		if key == "" {
			key = "no-otter-frame"
		}
		if _, ok := out[key]; !ok {
			if len(p) > 6000 {
				p = p[:6000]
			}
			out[key] = "WARNING: DATA RACE" + p
		}
	}
	return out
}

func copyFile(src, dst string) {
	data, err := os.ReadFile(src)
	if err != nil {
		return
	}
	if len(data) > 2<<20 {
		data = append(data[:1<<20], data[len(data)-(1<<20):]...)
	}
	os.WriteFile(dst, data, 0o644)
}

func main() {
	if len(os.Args) < 2 {
		fmt.Fprintln(os.Stderr, "usage: vcheck <property> [--tier quick|thorough] [--replay path]")
		os.Exit(2)
	}
	prop := os.Args[1]
	fs := flag.NewFlagSet("vcheck", flag.ExitOnError)
	tier := fs.String("tier", "", "quick|thorough")
	replay := fs.String("replay", "", "replay file")
	onlyVariant := fs.String("variant", "", "run only this variant")
	fs.Parse(os.Args[2:])
	if *tier == "" {
		*tier = os.Getenv("VERIF_TIER")
	}
	if *tier == "" {
		*tier = "quick"
	}
	if d := os.Getenv("VERIF_DIR"); d != "" {
		verifDir = d
	}
	seed := uint64(1)
	if s := os.Getenv("VERIF_SEED"); s != "" {
		if v, err := strconv.ParseInt(s, 10, 64); err == nil {
			seed = uint64(v)
		}
	}
	mk, ok := plans[prop]
	if !ok {
		fmt.Fprintf(os.Stderr, "unknown property %s\n", prop)
		os.Exit(2)
	}
	pl := mk(*tier)
	start := time.Now()

	buildDir := filepath.Join(verifDir, ".build")
	outDir := filepath.Join(buildDir, "out")
	os.MkdirAll(outDir, 0o755)
	os.MkdirAll(filepath.Join(verifDir, "replays"), 0o755)
	os.MkdirAll(filepath.Join(verifDir, "evidence"), 0o755)

	if *replay != "" {
		// Re-execute one recorded case with the plain binary.
		v := variant{Name: "plain", Shards: 1, Parallel: 1, TimeoutS: 900}
		bin, err := build(prop, v, buildDir)
		if err != nil {
			fmt.Fprintf(os.Stderr, "BUILD-FAILED (cannot decide): %v\n", err)
			os.Exit(2)
		}
		co := runChild(bin, prop, *tier, v, seed, 0, outDir, *replay)
		data, _ := os.ReadFile(co.logPath)
		os.Stdout.Write(data)
		if co.res != nil && len(co.res.Violations) > 0 {
			for _, vi := range co.res.Violations {
				fmt.Printf("VIOLATION property=%s replay=%s\n  %s: %s\n", prop, *replay, vi.Signature, vi.Detail)
			}
			os.Exit(1)
		}
		if co.res == nil {
			fmt.Println("replay: no result (crash or timeout), see log above")
			os.Exit(1)
		}
		fmt.Println("replay: no violation")
		return
	}

	type agg struct {
		evaluations  int64
		hashes       map[uint64]struct{}
		samples      []any
		counters     map[string]int64
		violations   []core.Violation
		inconclusive []string
		notes        []string
		rule         string
	}
	a := agg{hashes: map[uint64]struct{}{}, counters: map[string]int64{}}
	variantsRun := []string{}

	for _, v := range pl.Variants {
		if *onlyVariant != "" && v.Name != *onlyVariant {
			continue
		}
		bin, err := build(prop, v, buildDir)
		if err != nil {
			if v.Name == "plain" || v.Name == "race" {
				fmt.Fprintf(os.Stderr, "BUILD-FAILED (cannot decide): %v\n", err)
				os.Exit(2)
			}
			a.inconclusive = append(a.inconclusive, fmt.Sprintf("variant %s: build failed: %v", v.Name, err))
			continue
		}
		variantsRun = append(variantsRun, v.Name)
		outs := make([]childOut, v.Shards)
		sem := make(chan struct{}, max(1, v.Parallel))
		var wg sync.WaitGroup
		for i := 0; i < v.Shards; i++ {
			wg.Add(1)
			go func(i int) {
				defer wg.Done()
				sem <- struct{}{}
				defer func() { <-sem }()
				outs[i] = runChild(bin, prop, *tier, v, seed, i, outDir, "")
			}(i)
		}
		wg.Wait()
		for i, co := range outs {
			tag := fmt.Sprintf("%s/%d", v.Name, i)
			if co.res != nil {
				r := co.res
				a.evaluations += r.Evaluations
				if r.HashFile != "" {
					if data, err := os.ReadFile(r.HashFile); err == nil {
						for j := 0; j+8 <= len(data); j += 8 {
							a.hashes[binary.LittleEndian.Uint64(data[j:])] = struct{}{}
						}
					}
				}
				if len(a.samples) < 4 {
					for _, s := range r.Samples {
						if len(a.samples) < 4 {
							a.samples = append(a.samples, s)
						}
					}
				}
				for k, n := range r.Counters {
					if strings.HasPrefix(k, "max:") {
						if n > a.counters[k] {
							a.counters[k] = n
						}
					} else {
						a.counters[k] += n
					}
				}
				a.violations = append(a.violations, r.Violations...)
				for _, s := range r.Inconclusive {
					a.inconclusive = append(a.inconclusive, tag+": "+s)
				}
				for _, s := range r.Notes {
					if strings.HasPrefix(s, "rule: ") {
						if r := strings.TrimPrefix(s, "rule: "); !strings.Contains(a.rule, r) {
							if a.rule != "" {
								a.rule += " || "
							}
							a.rule += r
						}
					} else if len(a.notes) < 40 {
						a.notes = append(a.notes, s)
					}
				}
			} else {
				// No result: crash or timeout.
				data, _ := os.ReadFile(co.logPath)
				txt := string(data)
				dst := filepath.Join(verifDir, "replays", fmt.Sprintf("%s-crash-%s-%d.log", prop, v.Name, i))
				switch {
				case co.timedOut:
					copyFile(co.logPath, dst)
					a.inconclusive = append(a.inconclusive, tag+": watchdog fired (no verdict), log "+dst)
				case strings.Contains(txt, "panic:") || strings.Contains(txt, "fatal error:") || strings.Contains(txt, "AddressSanitizer"):
					copyFile(co.logPath, dst)
					cur := filepath.Join(outDir, fmt.Sprintf("%s-%s-%d.json.current", prop, v.Name, i))
					if _, err := os.Stat(cur); err == nil {
						// the pre-logged case descriptor is the replay; the log of the crash goes next to it
						rp := filepath.Join(verifDir, "replays", fmt.Sprintf("%s-crash-%s-%d.json", prop, v.Name, i))
						copyFile(cur, rp)
						dst = rp
					}
					sig := "crash"
					if idx := strings.Index(txt, "fatal error:"); idx >= 0 {
						sig = "crash:" + firstLine(txt[idx:])
					} else if idx := strings.Index(txt, "panic:"); idx >= 0 {
						sig = "crash:" + firstLine(txt[idx:])
					}
					a.violations = append(a.violations, core.Violation{
						Property: prop, Signature: sig, Detail: "the workload process died: " + tail(txt, 400), Replay: dst,
					})
				default:
					copyFile(co.logPath, dst)
					a.inconclusive = append(a.inconclusive, fmt.Sprintf("%s: no result (%v), log %s", tag, co.exitErr, dst))
				}
			}
			// Race detector reports.
			for _, rl := range co.raceLogs {
				reps := raceReports(rl)
				for key, body := range reps {
					if harnessOnly(body) {
						// both accesses are in the harness: its own bug, not a property of the repository
						dst := filepath.Join(verifDir, "replays", fmt.Sprintf("%s-harness-race-%x.txt", prop, core.HashBytes([]byte(key))))
						os.WriteFile(dst, []byte(body), 0o644)
						a.inconclusive = append(a.inconclusive, "race between two harness accesses (not judged): "+dst)
						a.counters["harness_race_reports"]++
						continue
					}
					a.counters["race_reports"]++
					sig := "race:" + key
					dst := filepath.Join(verifDir, "replays", fmt.Sprintf("%s-race-%x.txt", prop, core.HashBytes([]byte(key))))
					os.WriteFile(dst, []byte(body), 0o644)
					a.violations = append(a.violations, core.Violation{
						Property: prop, Signature: sig, Detail: "data race reported by the race detector", Replay: dst,
					})
				}
			}
		}
	}

	// Apply known findings.
	findings := loadFindings()
	var fresh []core.Violation
	knownSeen := map[string]bool{}
	seenSig := map[string]bool{}
	for _, v := range a.violations {
		matched := false
		for _, f := range findings {
			if !f.Fixed && f.Property == prop && f.Signature != "" && f.Signature == v.Signature {
				matched = true
				if !knownSeen[f.Signature] {
					knownSeen[f.Signature] = true
					fmt.Printf("KNOWN-FINDING: %s\n", f.Text)
				}
			}
		}
		if !matched {
			fresh = append(fresh, v)
		}
	}
	for _, v := range fresh {
		key := v.Signature
		if seenSig[key] {
			continue
		}
		seenSig[key] = true
		rp := v.Replay
		if rp == "" {
			rp = filepath.Join(verifDir, "replays", fmt.Sprintf("%s-%x.json", prop, core.HashBytes([]byte(v.Signature+v.Detail))))
			data, _ := json.MarshalIndent(v, "", " ")
			os.WriteFile(rp, data, 0o644)
		}
		fmt.Printf("VIOLATION property=%s replay=%s\n  signature=%s\n  %s\n", prop, rp, v.Signature, v.Detail)
	}

	wall := time.Since(start).Seconds()
	cov := map[string]any{
		"evaluations":         a.evaluations,
		"distinct_nontrivial": len(a.hashes),
		"rule":                a.rule,
		"samples":             a.samples,
		"variants_run":        variantsRun,
		"inconclusive":        a.inconclusive,
		"known_findings_seen": keys(knownSeen),
		"notes":               a.notes,
	}
	ckeys := make([]string, 0, len(a.counters))
	for k := range a.counters {
		ckeys = append(ckeys, k)
	}
	sort.Strings(ckeys)
	observed := map[string]int64{}
	for _, k := range ckeys {
		observed[k] = a.counters[k]
	}
	cov["observed"] = observed
	ev := map[string]any{
		"property_id": prop,
		"tier":        *tier,
		"seed":        int64(seed),
		"level":       "exploration",
		"coverage":    cov,
		"assumptions": []string{
			"executions are sampled: a defect needing an input or interleaving that was not produced stays invisible",
			"the harness's reference model and checkers (under /verif/harness) are trusted",
			"hooks compiled with -tags verif only add yield points and read-only state export",
		},
		"wall_s":     wall,
		"violations": len(fresh),
	}
	data, _ := json.MarshalIndent(ev, "", " ")
	os.WriteFile(filepath.Join(verifDir, "evidence", prop+".json"), data, 0o644)

	fmt.Printf("%s tier=%s seed=%d evaluations=%d distinct_nontrivial=%d violations=%d inconclusive=%d wall=%.1fs\n",
		prop, *tier, seed, a.evaluations, len(a.hashes), len(fresh), len(a.inconclusive), wall)
	if len(fresh) > 0 {
		os.Exit(1)
	}
	if a.evaluations == 0 || len(a.hashes) < 2 {
		fmt.Println("NO-VERDICT: the run observed too little to decide anything (see evidence.inconclusive)")
		for _, s := range a.inconclusive {
			fmt.Println("  " + s)
		}
		os.Exit(2)
	}
}

func keys(m map[string]bool) []string {
	out := []string{}
	for k := range m {
		out = append(out, k)
	}
	sort.Strings(out)
	return out
}

func firstLine(s string) string {
	if i := strings.IndexByte(s, '\n'); i >= 0 {
		s = s[:i]
	}
	if len(s) > 120 {
		s = s[:120]
	}
	return strings.ReplaceAll(s, " ", "_")
}

func tail(s string, n int) string {
	if len(s) > n {
		return s[len(s)-n:]
	}
	return s
}
