// vwork runs the workload of one property shard and writes what it observed.
package main

import (
	"bytes"
	"flag"
	"fmt"
	"os"
	"runtime"
	"runtime/pprof"
	"time"

	"otterverif/internal/conc"
	"otterverif/internal/core"
	"otterverif/internal/seq"
)

func main() {
	prop := flag.String("prop", "", "property id")
	tier := flag.String("tier", "quick", "quick|thorough")
	variant := flag.String("variant", "plain", "plain|race|race126|asan")
	seed := flag.Uint64("seed", 1, "seed")
	shard := flag.Int("shard", 0, "shard")
	nshards := flag.Int("nshards", 1, "number of shards")
	out := flag.String("out", "", "result file")
	replayDir := flag.String("replaydir", "/verif/replays", "where witnesses go")
	replay := flag.String("replay", "", "replay file")
	memprof := flag.String("memprofile", "", "write a heap profile here when done (debugging aid)")
	maxCases := flag.Int("maxcases", 0, "debugging aid: stop after this many sequential cases")
	flag.Parse()
	seq.MaxCases = *maxCases
	if *memprof != "" {
		defer func() {
			runtime.GC()
			f, err := os.Create(*memprof)
			if err == nil {
				pprof.WriteHeapProfile(f)
				f.Close()
			}
		}()
	}

	start := time.Now()
	col := core.NewCollector(*prop, *tier, *variant, *seed, *shard)
	if *out != "" {
		seq.CurrentFile = *out + ".current"
	}
	if *replay != "" {
		if err := replayFile(col, *prop, *replay); err != nil {
			fmt.Println("replay failed:", err)
			os.Exit(3)
		}
	} else {
		run(col, *prop, *tier, *variant, *seed, *shard, *nshards, *replayDir, *out)
	}
	col.R.WallS = time.Since(start).Seconds()
	if *out != "" {
		if err := col.Write(*out); err != nil {
			fmt.Println("cannot write result:", err)
			os.Exit(3)
		}
	}
	for _, v := range col.R.Violations {
		fmt.Printf("violation %s: %s\n", v.Signature, v.Detail)
	}
}

func run(col *core.Collector, prop, tier, variant string, seed uint64, shard, nshards int, replayDir, out string) {
	switch prop {
	case "C01", "C07", "C12":
		seq.RunProperty(col, prop, tier, seed, shard, nshards, replayDir)
	case "C10":
		seq.RunProperty(col, prop, tier, seed, shard, nshards, replayDir)
		conc.RunC10Exec(col, tier, variant, seed, shard, nshards, replayDir)
	case "C03":
		if variant == "plain" {
			seq.RunProperty(col, prop, tier, seed, shard, nshards, replayDir)
			seq.RunPersistExpired(col, tier, seed, shard, nshards, replayDir)
		}
		conc.RunC03(col, tier, variant, seed, shard, nshards, replayDir, out)
	case "C11":
		if variant == "plain" {
			seq.RunProperty(col, prop, tier, seed, shard, nshards, replayDir)
		}
		conc.RunC11(col, tier, variant, seed, shard, nshards, replayDir, out)
	case "C13":
		seq.RunProperty(col, prop, tier, seed, shard, nshards, replayDir)
		seq.RunSched(col, tier, seed, shard, nshards, replayDir)
		seq.RunReadSched(col, tier, seed, shard, nshards, replayDir)
		seq.RunSweepRace(col, tier, seed, shard, nshards, replayDir)
		seq.RunExtend(col, tier, seed, shard, nshards, replayDir)
	case "C20", "C04", "C05", "C06":
		if variant == "plain" {
			seq.RunProperty(col, prop, tier, seed, shard, nshards, replayDir)
			if prop == "C04" {
				seq.RunReadSchedBound(col, tier, seed, shard, nshards, replayDir)
			}
		}
		conc.Run(col, prop, tier, variant, seed, shard, nshards, replayDir, out)
		if prop == "C06" {
			conc.RunC06Expiry(col, tier, variant, seed, shard, nshards, replayDir)
		}
		if prop == "C20" {
			conc.RunC20Expiry(col, tier, variant, seed, shard, nshards, replayDir)
		}
	case "C15":
		conc.RunC15(col, tier, variant, seed, shard, nshards, replayDir, out)
	case "C16":
		conc.RunC16(col, tier, variant, seed, shard, nshards, replayDir, out)
	case "C17":
		conc.RunC17(col, tier, variant, seed, shard, nshards, replayDir, out)
	case "C18":
		conc.RunC18(col, tier, variant, seed, shard, nshards, replayDir, out)
	case "C08":
		conc.RunC08(col, tier, variant, seed, shard, nshards, replayDir, out)
	case "C09":
		conc.RunC09(col, tier, variant, seed, shard, nshards, replayDir, out)
	case "C02", "C14":
		conc.Run(col, prop, tier, variant, seed, shard, nshards, replayDir, out)
	case "C19":
		seq.RunPersist(col, tier, seed, shard, nshards, replayDir)
	default:
		col.Inconclusive("no workload for " + prop)
	}
}

func replayFile(col *core.Collector, prop, path string) error {
	data, err := os.ReadFile(path)
	if err != nil {
		return err
	}
	switch {
	case bytes.Contains(data, []byte(`"seq-regenerate"`)):
		return seq.Regenerate(col, data, path)
	case bytes.Contains(data, []byte(`"sched_case"`)):
		return seq.ReplaySched(col, data, path)
	case bytes.Contains(data, []byte(`"persist_case"`)):
		return seq.ReplayPersist(col, data, path)
	case bytes.Contains(data, []byte(`"sweeprace_case"`)):
		return seq.ReplaySweepRace(col, data, path)
	case bytes.Contains(data, []byte(`"readsched_case"`)):
		return seq.ReplayReadSched(col, data, path)
	case bytes.Contains(data, []byte(`"extend_case"`)):
		return seq.ReplayExtend(col, data, path)
	case bytes.Contains(data, []byte(`"engine": "seq"`)) || bytes.Contains(data, []byte(`"engine":"seq"`)):
		return seq.ReplayFile(col, path)
	default:
		return conc.Replay(col, data, path, 30)
	}
}
