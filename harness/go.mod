module otterverif

go 1.24.0

require (
	github.com/anishathalye/porcupine v1.3.0
	github.com/maypok86/otter/v2 v2.0.0-00010101000000-000000000000
)

require (
	github.com/davecgh/go-spew v1.1.1 // indirect
	github.com/pmezard/go-difflib v1.0.0 // indirect
	github.com/stretchr/testify v1.11.1 // indirect
	gopkg.in/yaml.v3 v3.0.1 // indirect
)

replace github.com/maypok86/otter/v2 => /repo
