module otterverif

go 1.24.0

require (
	github.com/anishathalye/porcupine v1.3.0
	github.com/maypok86/otter/v2 v2.0.0-00010101000000-000000000000
)

replace github.com/maypok86/otter/v2 => /repo
