// Package core holds what every engine shares: PRNG, result records, violation records.
package core

import (
	"encoding/binary"
	"encoding/json"
	"fmt"
	"hash/fnv"
	"os"
	"sort"
	"sync"
)

// Rng is a splitmix64 generator. It is deterministic for a seed and cheap to fork.
type Rng struct{ s uint64 }

func NewRng(seed uint64) *Rng { return &Rng{s: seed} }

func Mix(x uint64) uint64 {
	x += 0x9e3779b97f4a7c15
	x = (x ^ (x >> 30)) * 0xbf58476d1ce4e5b9
	x = (x ^ (x >> 27)) * 0x94d049bb133111eb
	return x ^ (x >> 31)
}

// Derive gives the seed of (seed, labels...).
func Derive(seed uint64, labels ...uint64) uint64 {
	s := Mix(seed)
	for _, l := range labels {
		s = Mix(s ^ Mix(l))
	}
	return s
}

func StrLabel(s string) uint64 {
	h := fnv.New64a()
	h.Write([]byte(s))
	return h.Sum64()
}

func (r *Rng) U64() uint64 {
	r.s += 0x9e3779b97f4a7c15
	x := r.s
	x = (x ^ (x >> 30)) * 0xbf58476d1ce4e5b9
	x = (x ^ (x >> 27)) * 0x94d049bb133111eb
	return x ^ (x >> 31)
}

// Intn returns a value in [0, n).
func (r *Rng) Intn(n int) int {
	if n <= 1 {
		return 0
	}
	return int(r.U64() % uint64(n))
}

func (r *Rng) Int63() int64 { return int64(r.U64() >> 1) }

// Chance is true with probability num/den.
func (r *Rng) Chance(num, den int) bool { return r.Intn(den) < num }

func (r *Rng) Fork() *Rng { return NewRng(r.U64()) }

// Pick returns one of the weights' indexes with probability proportional to the weight.
func (r *Rng) Pick(weights []int) int {
	total := 0
	for _, w := range weights {
		total += w
	}
	x := r.Intn(total)
	for i, w := range weights {
		if x < w {
			return i
		}
		x -= w
	}
	return len(weights) - 1
}

// Violation is one refuting observation.
type Violation struct {
	Property  string `json:"property"`
	Signature string `json:"signature"` // stable id of scenario + failing relation (matched against KNOWN_FINDINGS)
	Detail    string `json:"detail"`
	Replay    string `json:"replay,omitempty"` // path of the replay file
	Case      any    `json:"case,omitempty"`
}

// Result is what one worker process reports.
type Result struct {
	Property     string           `json:"property"`
	Tier         string           `json:"tier"`
	Variant      string           `json:"variant"`
	Seed         uint64           `json:"seed"`
	Shard        int              `json:"shard"`
	Evaluations  int64            `json:"evaluations"`
	NonTrivial   int64            `json:"nontrivial"` // distinct non-trivial in this shard (hashes in HashFile)
	HashFile     string           `json:"hash_file,omitempty"`
	Samples      []any            `json:"samples,omitempty"`
	Counters     map[string]int64 `json:"counters,omitempty"`
	Violations   []Violation      `json:"violations,omitempty"`
	Inconclusive []string         `json:"inconclusive,omitempty"`
	Notes        []string         `json:"notes,omitempty"`
	WallS        float64          `json:"wall_s"`
}

// Collector accumulates a Result; safe for concurrent use.
type Collector struct {
	mu     sync.Mutex
	R      Result
	hashes map[uint64]struct{}
	maxV   int
}

func NewCollector(prop, tier, variant string, seed uint64, shard int) *Collector {
	return &Collector{
		R: Result{
			Property: prop, Tier: tier, Variant: variant, Seed: seed, Shard: shard,
			Counters: map[string]int64{},
		},
		hashes: map[uint64]struct{}{},
		maxV:   20,
	}
}

func (c *Collector) Eval(n int64) {
	c.mu.Lock()
	c.R.Evaluations += n
	c.mu.Unlock()
}

// NonTrivial records the hash of a non-trivial case.
func (c *Collector) NonTrivial(h uint64) {
	c.mu.Lock()
	c.hashes[h] = struct{}{}
	c.mu.Unlock()
}

func (c *Collector) Count(key string, n int64) {
	c.mu.Lock()
	c.R.Counters[key] += n
	c.mu.Unlock()
}

// Max keeps the maximum under the key "max:<key>".
func (c *Collector) Max(key string, n int64) {
	c.mu.Lock()
	if n > c.R.Counters["max:"+key] {
		c.R.Counters["max:"+key] = n
	}
	c.mu.Unlock()
}

func (c *Collector) Sample(s any) {
	c.mu.Lock()
	if len(c.R.Samples) < 3 {
		c.R.Samples = append(c.R.Samples, s)
	}
	c.mu.Unlock()
}

func (c *Collector) NumSamples() int {
	c.mu.Lock()
	defer c.mu.Unlock()
	return len(c.R.Samples)
}

func (c *Collector) Violation(v Violation) {
	c.mu.Lock()
	if len(c.R.Violations) < c.maxV {
		c.R.Violations = append(c.R.Violations, v)
	}
	c.R.Counters["violations_total"]++
	c.mu.Unlock()
}

func (c *Collector) NumViolations() int {
	c.mu.Lock()
	defer c.mu.Unlock()
	return int(c.R.Counters["violations_total"])
}

func (c *Collector) Inconclusive(s string) {
	c.mu.Lock()
	if len(c.R.Inconclusive) < 50 {
		c.R.Inconclusive = append(c.R.Inconclusive, s)
	}
	c.R.Counters["inconclusive_total"]++
	c.mu.Unlock()
}

func (c *Collector) Note(s string) {
	c.mu.Lock()
	if len(c.R.Notes) < 50 {
		c.R.Notes = append(c.R.Notes, s)
	}
	c.mu.Unlock()
}

// Write stores the result (and the hash file next to it).
func (c *Collector) Write(path string) error {
	c.mu.Lock()
	defer c.mu.Unlock()
	c.R.NonTrivial = int64(len(c.hashes))
	hs := make([]uint64, 0, len(c.hashes))
	for h := range c.hashes {
		hs = append(hs, h)
	}
	sort.Slice(hs, func(i, j int) bool { return hs[i] < hs[j] })
	buf := make([]byte, 8*len(hs))
	for i, h := range hs {
		binary.LittleEndian.PutUint64(buf[8*i:], h)
	}
	c.R.HashFile = path + ".hashes"
	if err := os.WriteFile(c.R.HashFile, buf, 0o644); err != nil {
		return err
	}
	data, err := json.Marshal(&c.R)
	if err != nil {
		return fmt.Errorf("marshal result: %w", err)
	}
	tmp := path + ".tmp"
	if err := os.WriteFile(tmp, data, 0o644); err != nil {
		return err
	}
	return os.Rename(tmp, path)
}

// HashBytes hashes a case description.
func HashBytes(b []byte) uint64 {
	h := fnv.New64a()
	h.Write(b)
	return h.Sum64()
}

// HashJSON hashes the JSON form of v.
func HashJSON(v any) uint64 {
	b, _ := json.Marshal(v)
	return HashBytes(b)
}
