package conc

import (
	"fmt"
	"runtime"
	"sync"
	"sync/atomic"
	"time"

	"github.com/maypok86/otter/v2"
	"github.com/maypok86/otter/v2/stats"

	"otterverif/internal/core"
)

// ---- C03, concurrent half: phases ------------------------------------------------------------------
//
// The clock moves only at barriers. Every value carries its deadline: the expiry policy is
// write-reset with a ttl that is a pure function of the value, and the clock is constant within a
// phase, so deadline(v) = clock of the phase that wrote v + ttl(v) is known exactly. Any result
// that exposes a value whose deadline is not after the current phase clock is a violation.

type phaseClock struct {
	now  atomic.Int64
	tick chan time.Time
}

func (c *phaseClock) NowNano() int64                      { return c.now.Load() }
func (c *phaseClock) Tick(time.Duration) <-chan time.Time { return c.tick }

type c03Cfg struct {
	Seed      uint64 `json:"seed"`
	Index     int    `json:"index"`
	G         int    `json:"goroutines"`
	Keys      int    `json:"keys"`
	Phases    int    `json:"phases"`
	Ops       int    `json:"ops_per_phase"`
	Max       int    `json:"maximum_size"`
	DelayPerM int    `json:"delay_per_mille"`
	Exec      int    `json:"exec"`
}

func ttlOf(v int) int64 {
	h := core.Mix(uint64(v))
	switch h % 4 {
	case 0:
		return int64(1 + h>>40%50)
	case 1:
		return int64(1000 + h>>40%100000)
	case 2:
		return int64(1<<30) + int64(h>>40%1000)
	default:
		return int64(1<<31) + int64(h>>36)
	}
}

type c03Event struct {
	atomic bool
	key    int
	val    int
	cause  otter.DeletionCause
	clock  int64
}

func runC03(cfg c03Cfg) (violation string, exposuresChecked, expiredUnsweptOps int64) {
	v, _, a, b := runC03Events(cfg)
	return v, a, b
}

// runC03Events is runC03 plus the deletion-event oracle used by C06 (expiry under concurrency).
func runC03Events(cfg c03Cfg) (violation, eventViolation string, exposuresChecked, expiredUnsweptOps int64) {
	v, ev, _, a, b := runC03All(cfg)
	return v, ev, a, b
}

func runC03All(cfg c03Cfg) (violation, eventViolation, statsViolation string, exposuresChecked, expiredUnsweptOps int64) {
	clk := &phaseClock{tick: make(chan time.Time)}
	clk.now.Store(1_000_000_000)
	var wg sync.WaitGroup
	var emu sync.Mutex
	var events []c03Event
	rec := func(at bool) func(e otter.DeletionEvent[int, int]) {
		return func(e otter.DeletionEvent[int, int]) {
			now := clk.now.Load()
			emu.Lock()
			events = append(events, c03Event{at, e.Key, e.Value, e.Cause, now})
			emu.Unlock()
		}
	}
	counter := stats.NewCounter()
	o := &otter.Options[int, int]{
		StatsRecorder:    counter,
		OnAtomicDeletion: rec(true),
		OnDeletion:       rec(false),
		Clock:            clk,
		ExpiryCalculator: otter.ExpiryWritingFunc(func(e otter.Entry[int, int]) time.Duration {
			return time.Duration(ttlOf(e.Value))
		}),
	}
	if cfg.Max > 0 {
		o.MaximumSize = cfg.Max
	}
	switch cfg.Exec {
	case 0:
		o.Executor = func(fn func()) { fn() }
	default:
		o.Executor = func(fn func()) {
			wg.Add(1)
			go func() {
				defer wg.Done()
				fn()
			}()
		}
	}
	c, err := otter.New(o)
	if err != nil {
		return "", "", "", 0, 0
	}
	defer c.StopAllGoroutines()
	otter.VerifSetHook(compHook(cfg.Seed, cfg.DelayPerM))
	defer otter.VerifSetHook(nil)

	deadline := sync.Map{}  // value -> deadline
	installed := sync.Map{} // values that were certainly installed
	var vmu sync.Mutex
	fail := func(s string) {
		vmu.Lock()
		if violation == "" {
			violation = s
		}
		vmu.Unlock()
	}
	var checked, onExpired atomic.Int64
	// latest deadline known per key (to aim clock moves and count operations on expired-unswept keys)
	lastDeadline := make([]atomic.Int64, cfg.Keys)
	expose := func(what string, k, v int, now int64) {
		checked.Add(1)
		d, ok := deadline.Load(v)
		if !ok {
			fail(fmt.Sprintf("%s exposed value %d of key %d, which was never written", what, v, k))
			return
		}
		if d.(int64) <= now {
			fail(fmt.Sprintf("%s exposed value %d of key %d at clock %d, its expiration time was %d", what, v, k, now, d.(int64)))
		}
	}
	rngMain := core.NewRng(cfg.Seed)
	for phase := 0; phase < cfg.Phases && violation == ""; phase++ {
		now := clk.now.Load()
		var pw sync.WaitGroup
		for g := 0; g < cfg.G; g++ {
			pw.Add(1)
			go func(g int) {
				defer pw.Done()
				rng := core.NewRng(core.Derive(cfg.Seed, uint64(phase), uint64(g)))
				ctr := 0
				for i := 0; i < cfg.Ops; i++ {
					k := rng.Intn(cfg.Keys)
					if ld := lastDeadline[k].Load(); ld != 0 && ld <= now {
						onExpired.Add(1)
					}
					newVal := func() int {
						ctr++
						v := ((phase*32+g)+1)*100_000 + ctr
						deadline.Store(v, now+ttlOf(v))
						return v
					}
					switch rng.Intn(12) {
					case 0, 1, 2:
						v := newVal()
						if old, ok := c.Set(k, v); !ok {
							expose("Set (as the previous value)", k, old, now)
						}
						installed.Store(v, true)
						lastDeadline[k].Store(now + ttlOf(v))
					case 3:
						v := newVal()
						if old, ok := c.SetIfAbsent(k, v); !ok {
							expose("SetIfAbsent (as the present value)", k, old, now)
						} else {
							installed.Store(v, true)
							lastDeadline[k].Store(now + ttlOf(v))
						}
					case 4, 5:
						if v, ok := c.GetIfPresent(k); ok {
							expose("GetIfPresent", k, v, now)
						}
					case 6:
						if e, ok := c.GetEntry(k); ok {
							expose("GetEntry", k, e.Value, now)
						}
						if e, ok := c.GetEntryQuietly(k); ok {
							expose("GetEntryQuietly", k, e.Value, now)
						}
					case 7:
						v := newVal()
						c.Compute(k, func(old int, found bool) (int, otter.ComputeOp) {
							if found || old != 0 { // with found=false the function must get the zero value, not a dead entry's value
								expose("Compute (as the old value)", k, old, now)
							}
							if v%3 == 0 {
								return 0, otter.CancelOp
							}
							installed.Store(v, true)
							return v, otter.WriteOp
						})
					case 8:
						c.ComputeIfPresent(k, func(old int) (int, otter.ComputeOp) {
							expose("ComputeIfPresent (as the old value)", k, old, now)
							return old, otter.CancelOp
						})
					case 9:
						if v, ok := c.Invalidate(k); ok {
							expose("Invalidate (as the removed value)", k, v, now)
						}
					case 10:
						for kk, v := range c.All() {
							expose("All()", kk, v, now)
						}
					default:
						if cfg.Max > 0 {
							for e := range c.Coldest() {
								expose("Coldest()", e.Key, e.Value, now)
							}
						} else {
							for v := range c.Values() {
								expose("Values()", -1, v, now)
							}
						}
					}
					progress.Add(1)
					if rng.Chance(1, 4) {
						runtime.Gosched()
					}
				}
			}(g)
		}
		pw.Wait()
		wg.Wait()
		// barrier: move the clock, often exactly onto a deadline (expired by <=, not swept by <)
		step := int64(1 + rngMain.Intn(2000))
		switch rngMain.Intn(4) {
		case 0:
			k := rngMain.Intn(cfg.Keys)
			if ld := lastDeadline[k].Load(); ld > now {
				step = ld - now
			}
		case 1:
			step = int64(1<<30) + int64(rngMain.Intn(1<<20))
		case 2:
			step = int64(rngMain.Intn(1 << 30))
		}
		clk.now.Store(now + step)
		if rngMain.Chance(1, 5) {
			c.CleanUp()
			wg.Wait()
		}
	}
	// ---- the deletion events of the whole trial (C06 with expiry under concurrency) ----
	// Let everything expire and be swept, then every written value must have been reported
	// exactly once by each handler, with a cause that fits its deadline at the time of the event.
	clk.now.Store(clk.now.Load() + int64(1)<<62)
	c.CleanUp()
	wg.Wait()
	c.CleanUp()
	wg.Wait()
	if violation == "" {
		type kv struct{ k, v int }
		atomicSeen := map[kv]c03Event{}
		delSeen := map[kv]c03Event{}
		for _, e := range events {
			p := kv{e.key, e.val}
			d, ok := deadline.Load(e.val)
			if !ok {
				eventViolation = fmt.Sprintf("a deletion handler reported (%d,%d,%s), a value that was never written", e.key, e.val, e.cause)
				break
			}
			m := delSeen
			if e.atomic {
				m = atomicSeen
			}
			if prev, dup := m[p]; dup {
				eventViolation = fmt.Sprintf("value (%d,%d) was reported twice to the same handler (%s, then %s)", e.key, e.val, prev.cause, e.cause)
				break
			}
			m[p] = e
			if e.atomic {
				expired := d.(int64) <= e.clock
				switch e.cause {
				case otter.CauseExpiration:
					if !expired {
						eventViolation = fmt.Sprintf("value (%d,%d) was reported with cause Expiration at clock %d, its expiration time is %d", e.key, e.val, e.clock, d.(int64))
					}
				case otter.CauseReplacement, otter.CauseInvalidation:
					if expired {
						eventViolation = fmt.Sprintf("value (%d,%d) was reported with cause %s at clock %d although it had expired at %d", e.key, e.val, e.cause, e.clock, d.(int64))
					}
				case otter.CauseOverflow:
					if cfg.Max == 0 {
						eventViolation = fmt.Sprintf("value (%d,%d) reported with cause Overflow in a cache without a size bound", e.key, e.val)
					}
				}
				if eventViolation != "" {
					break
				}
			}
		}
		if eventViolation == "" {
			for p, a := range atomicSeen {
				d, ok := delSeen[p]
				if !ok {
					eventViolation = fmt.Sprintf("value (%d,%d) was reported to OnAtomicDeletion (%s) but never to OnDeletion", p.k, p.v, a.cause)
					break
				}
				if d.cause != a.cause {
					eventViolation = fmt.Sprintf("value (%d,%d): OnAtomicDeletion says %s, OnDeletion says %s", p.k, p.v, a.cause, d.cause)
					break
				}
			}
		}
		if eventViolation == "" && len(delSeen) != len(atomicSeen) {
			eventViolation = fmt.Sprintf("%d values were reported to OnDeletion but %d to OnAtomicDeletion", len(delSeen), len(atomicSeen))
		}
		if eventViolation == "" {
			// statistics with expiration: every Overflow removal is counted, nothing but Overflow and
			// Expiration removals is counted
			var overflow, expiration uint64
			for _, a := range atomicSeen {
				switch a.cause {
				case otter.CauseOverflow:
					overflow++
				case otter.CauseExpiration:
					expiration++
				}
			}
			if st := counter.Snapshot(); st.Evictions < overflow || st.Evictions > overflow+expiration {
				statsViolation = fmt.Sprintf("evictions = %d but %d Overflow and %d Expiration removals were reported (expected between %d and %d)", st.Evictions, overflow, expiration, overflow, overflow+expiration)
			}
		}
		if eventViolation == "" {
			if n := c.EstimatedSize(); n != 0 {
				eventViolation = fmt.Sprintf("after every deadline passed and two CleanUps %d entries are still counted", n)
			}
			// conservation: every value that was certainly installed has been reported (nothing is left)
			installed.Range(func(k, _ any) bool {
				v := k.(int)
				found := false
				for p := range atomicSeen {
					if p.v == v {
						found = true
						break
					}
				}
				if !found {
					eventViolation = fmt.Sprintf("value %d was written, nothing is present any more, and it was never reported to the deletion handlers", v)
					return false
				}
				return true
			})
		}
	}
	return violation, eventViolation, statsViolation, checked.Load(), onExpired.Load()
}

// RunC06Expiry runs the phased trials for their deletion events (C06 with expiry under concurrency).
func RunC06Expiry(col *core.Collector, tier, variant string, seed uint64, shard, nshards int, replayDir string) {
	runExpiryEvents(col, "C06", false, tier, variant, seed, shard, nshards, replayDir)
}

// RunC20Expiry runs the same trials for the eviction counter (C20 with expiration under concurrency).
func RunC20Expiry(col *core.Collector, tier, variant string, seed uint64, shard, nshards int, replayDir string) {
	runExpiryEvents(col, "C20", true, tier, variant, seed, shard, nshards, replayDir)
}

func runExpiryEvents(col *core.Collector, prop string, statsOnly bool, tier, variant string, seed uint64, shard, nshards int, replayDir string) {
	n := 400
	if tier == "thorough" {
		n = 12000
	}
	if variant != "plain" {
		n /= 3
	}
	for i := shard; i < n; i += nshards {
		r := core.NewRng(core.Derive(seed, core.StrLabel(prop+"expiry"), core.StrLabel(variant), uint64(i)))
		cfg := c03Cfg{Seed: r.U64(), Index: i, G: 2 + r.Intn(6), Keys: 1 + r.Intn(6), Phases: 4 + r.Intn(12), Ops: 10 + r.Intn(40),
			DelayPerM: []int{0, 50, 200}[r.Intn(3)], Exec: r.Intn(2)}
		if r.Chance(1, 2) {
			cfg.Max = 1 + r.Intn(6)
		}
		_, ev, sv, checked, _ := runC03All(cfg)
		if statsOnly {
			ev = sv
		}
		col.Eval(1)
		col.Count("c06.expiry_trials", 1)
		col.Count("c06.expiry_exposures", checked)
		col.NonTrivial(core.HashJSON(cfg))
		if ev != "" {
			path := writeReplay(replayDir, fmt.Sprintf("%s-expiry-%x.json", prop, core.HashJSON(cfg)), map[string]any{"engine": "expiry-events", "trial": cfg, "violation": ev})
			col.Violation(core.Violation{Property: prop, Signature: "expiry-events:" + sigText(ev), Detail: ev + fmt.Sprintf(" (trial %+v)", cfg), Replay: path})
			if col.NumViolations() >= 5 {
				break
			}
		}
	}
}

// RunC03 runs the phased concurrent trials.
func RunC03(col *core.Collector, tier, variant string, seed uint64, shard, nshards int, replayDir, outBase string) {
	col.Note("rule: concurrent part: phased trials, the clock moves only at barriers (often exactly onto a deadline), values carry their deadline (write-reset policy with a ttl that is a function of the value), every exposure of a value by any operation or iterator is compared with the phase clock; non-trivial = at least 10 operations were applied to keys whose last written value had expired; distinct = trial parameters")
	n := 600
	if tier == "thorough" {
		n = 20000
	}
	if variant != "plain" {
		n /= 3
	}
	runC03SetterAll(col, tier, variant, seed, shard, nshards, replayDir)
	runC03IterAll(col, tier, variant, seed, shard, nshards, replayDir)
	for i := shard; i < n; i += nshards {
		r := core.NewRng(core.Derive(seed, core.StrLabel("C03conc"), core.StrLabel(variant), uint64(i)))
		cfg := c03Cfg{Seed: r.U64(), Index: i, G: 2 + r.Intn(6), Keys: 1 + r.Intn(6), Phases: 4 + r.Intn(12), Ops: 10 + r.Intn(40),
			DelayPerM: []int{0, 50, 200}[r.Intn(3)], Exec: r.Intn(2)}
		if r.Chance(1, 2) {
			cfg.Max = 1 + r.Intn(6)
		}
		v, checked, onExpired := runC03(cfg)
		col.Eval(1)
		col.Count("c03.exposures_checked", checked)
		col.Count("c03.ops_on_keys_with_expired_value", onExpired)
		if onExpired >= 10 {
			col.NonTrivial(core.HashJSON(cfg))
		}
		if v != "" {
			path := writeReplay(replayDir, fmt.Sprintf("C03-conc-%x.json", core.HashJSON(cfg)), map[string]any{"engine": "c03", "trial": cfg, "violation": v})
			col.Violation(core.Violation{Property: "C03", Signature: "c03:" + sigText(v), Detail: v + fmt.Sprintf(" (trial %+v)", cfg), Replay: path})
			if col.NumViolations() >= 5 {
				break
			}
		}
	}
}
