package conc

import (
	"context"
	"errors"
	"fmt"
	"sync"
	"sync/atomic"
	"time"

	"github.com/maypok86/otter/v2"
)

// ---- C09, straddle scenarios -------------------------------------------------------------------
//
// The explicit writer is parked inside one of its own callbacks - the Weigher, an expiry or
// refresh calculator, or the OnAtomicDeletion handler. All of them run inside the key's table
// computation, i.e. before the write is published. While it is parked a load of the key starts,
// its loader runs and returns; then the writer is released. The write was therefore published
// after the start of the load and before its installation (which needs the bucket lock the writer
// holds), so the loaded value must not be in the cache afterwards. This is the family of defect D8
// (the first member - Set parked in its Weigher - is kept as witnessD8).

const (
	parkWeigher = iota
	parkExpiry
	parkRefresh
	parkAtomicHandler
	numParkSites
)

var parkNames = []string{"Weigher", "expiry calculator", "refresh calculator", "OnAtomicDeletion handler"}

type straddle struct {
	Load     int  `json:"load"`
	Write    int  `json:"write"`
	Park     int  `json:"park"`
	Exec     int  `json:"exec"`
	NotFound bool `json:"loader_reports_not_found"`
	Bounded  bool `json:"size_bound,omitempty"` // a (never reached) size bound: replaced and removed nodes are retired, as under any policy
}

func (s straddle) String() string {
	nf := ""
	if s.NotFound {
		nf = ", loader reports not-found"
	}
	if s.Bounded {
		nf += ", size-bounded cache"
	}
	return fmt.Sprintf("%s started while %s is parked in its %s (executor %d%s)", loadKindNames[s.Load], writeKindNames[s.Write], parkNames[s.Park], s.Exec, nf)
}

type parkCalc struct {
	park func(v int)
}

func (p parkCalc) ExpireAfterCreate(e otter.Entry[int, int]) time.Duration {
	p.park(e.Value)
	return time.Hour
}
func (p parkCalc) ExpireAfterUpdate(e otter.Entry[int, int], old int) time.Duration {
	p.park(e.Value)
	return time.Hour
}
func (p parkCalc) ExpireAfterRead(e otter.Entry[int, int]) time.Duration { return e.ExpiresAfter() }

type parkRefreshCalc struct {
	park func(v int)
}

func (p parkRefreshCalc) RefreshAfterCreate(e otter.Entry[int, int]) time.Duration {
	p.park(e.Value)
	return time.Nanosecond
}
func (p parkRefreshCalc) RefreshAfterUpdate(e otter.Entry[int, int], old int) time.Duration {
	p.park(e.Value)
	return time.Nanosecond
}
func (p parkRefreshCalc) RefreshAfterReload(e otter.Entry[int, int], old int) time.Duration {
	return time.Nanosecond
}
func (p parkRefreshCalc) RefreshAfterReloadFailure(e otter.Entry[int, int], err error) time.Duration {
	return time.Nanosecond
}

// runStraddle returns (violation, inconclusive, skipped): skipped = the writer never reaches the
// chosen park site in this combination (e.g. no old entry, hence no deletion event).
func runStraddle(s straddle) (violation, inconclusive string, skipped bool) {
	const k, v0, vS, vL = 0, 111, 222, 333
	var (
		writerOn atomic.Bool
		parked   atomic.Bool
		inPark   = make(chan struct{}, 1)
		relPark  = make(chan struct{})
		wg       sync.WaitGroup
	)
	parkV := func(v int) { // called from callbacks that see the value being written
		if v == vS && writerOn.Load() && parked.CompareAndSwap(false, true) {
			inPark <- struct{}{}
			<-relPark
		}
	}
	present := s.Load == lkGetStale || s.Load == lkRefreshPresent || s.Load == lkBulkRefreshPresent
	clk := &phaseClock{tick: make(chan time.Time)}
	clk.now.Store(1_000_000_000)
	o := &otter.Options[int, int]{
		Clock:             clk,
		Logger:            &otter.NoopLogger{},
		RefreshCalculator: otter.RefreshWriting[int, int](time.Nanosecond),
	}
	switch s.Park {
	case parkWeigher:
		o.MaximumWeight = 1000
		o.Weigher = func(key, v int) uint32 {
			parkV(v)
			return 1
		}
	case parkExpiry:
		o.ExpiryCalculator = parkCalc{park: parkV}
	case parkRefresh:
		o.RefreshCalculator = parkRefreshCalc{park: parkV}
	case parkAtomicHandler:
		o.OnAtomicDeletion = func(e otter.DeletionEvent[int, int]) {
			if e.Key == k && writerOn.Load() && parked.CompareAndSwap(false, true) {
				inPark <- struct{}{}
				<-relPark
			}
		}
	}
	if s.Bounded {
		o.MaximumSize = 1000
	}
	if s.Load == lkGetExpired && o.ExpiryCalculator == nil {
		o.ExpiryCalculator = otter.ExpiryWriting[int, int](time.Minute)
	}
	if s.Exec == 0 {
		o.Executor = func(fn func()) { fn() }
	} else {
		o.Executor = func(fn func()) {
			wg.Add(1)
			go func() {
				defer wg.Done()
				fn()
			}()
		}
	}
	c, err := otter.New(o)
	if err != nil {
		return "", err.Error(), false
	}
	defer c.StopAllGoroutines()
	if s.Load == lkGetExpired {
		c.Set(k, v0)
		clk.now.Add(int64(2 * time.Hour)) // expired, not swept
	}
	if present {
		c.Set(k, v0)
		clk.now.Add(2) // stale after 1 ns
	}
	if s.Load == lkBulkRefreshPresent {
		c.Set(5, v0)
		clk.now.Add(2)
	}
	wg.Wait()

	// 1. the writer, parked before publication
	var effective atomic.Bool
	writeDone := make(chan struct{})
	writerOn.Store(true)
	go func() {
		defer close(writeDone)
		switch s.Write {
		case wkSet:
			c.Set(k, vS)
			effective.Store(true)
		case wkInvalidate:
			c.Invalidate(k)
			effective.Store(true)
		case wkComputeWrite:
			c.Compute(k, func(old int, found bool) (int, otter.ComputeOp) { return vS, otter.WriteOp })
			effective.Store(true)
		case wkComputeInvalidate:
			c.Compute(k, func(old int, found bool) (int, otter.ComputeOp) { return 0, otter.InvalidateOp })
			effective.Store(true)
		case wkSetIfAbsent:
			if _, ok := c.SetIfAbsent(k, vS); ok {
				effective.Store(true)
			}
		case wkComputeIfAbsent:
			c.ComputeIfAbsent(k, func() (int, bool) {
				effective.Store(true)
				return vS, false
			})
		case wkComputeIfPresentWrite:
			c.ComputeIfPresent(k, func(old int) (int, otter.ComputeOp) {
				effective.Store(true)
				return vS, otter.WriteOp
			})
		}
	}()
	select {
	case <-inPark:
	case <-writeDone:
		return "", "", true // this writer does not pass the park site in this combination
	case <-time.After(10 * time.Second):
		close(relPark)
		return "", "the writer neither parked nor returned", false
	}

	// 2. the load starts and its loader returns while the writer is still parked
	var loaderRan atomic.Bool
	loaderDone := make(chan struct{})
	loadFn := func() (int, error) {
		if loaderRan.CompareAndSwap(false, true) {
			defer close(loaderDone)
		}
		if s.NotFound {
			return 0, otter.ErrNotFound
		}
		return vL, nil
	}
	ld := scenLoader{fn: loadFn}
	ctx := context.Background()
	done := make(chan struct{})
	var gotV int
	var gotErr error
	go func() {
		defer close(done)
		switch s.Load {
		case lkGetMiss, lkGetStale, lkGetExpired:
			gotV, gotErr = c.Get(ctx, k, ld)
		case lkRefreshAbsent, lkRefreshPresent:
			if ch := c.Refresh(ctx, k, ld); ch != nil {
				r := <-ch
				gotV, gotErr = r.Value, r.Err
			}
		case lkBulkGetMiss:
			m, err := c.BulkGet(ctx, []int{k, 5}, ld)
			gotV, gotErr = m[k], err
		case lkBulkRefreshPresent:
			if ch := c.BulkRefresh(ctx, []int{k, 5}, ld); ch != nil {
				<-ch
			}
		}
	}()
	select {
	case <-loaderDone:
	case <-time.After(1500 * time.Millisecond):
		// no loader ran while the writer was parked (the call was served without loading, or its
		// path needs the bucket lock before it reaches the loader): nothing to judge
		close(relPark)
		<-writeDone
		<-done
		wg.Wait()
		return "", "no loader ran while the writer was parked", false
	}
	select {
	case <-done:
	case <-time.After(200 * time.Microsecond): // let the finishing load queue behind the bucket lock
	}
	close(relPark)
	select {
	case <-writeDone:
	case <-time.After(60 * time.Second):
		return "the parked writer did not return after its release", "", false
	}
	select {
	case <-done:
	case <-time.After(180 * time.Second):
		return "the loading call did not return", "", false
	}
	wg.Wait()
	_ = gotV
	if !s.NotFound && (s.Load == lkGetMiss || s.Load == lkGetExpired) && (gotErr != nil || gotV != vL) {
		return fmt.Sprintf("the loading Get did not receive the loaded value: got (%d,%v)", gotV, gotErr), "", false
	}
	if s.NotFound && (s.Load == lkGetMiss || s.Load == lkGetExpired) && !errors.Is(gotErr, otter.ErrNotFound) {
		return fmt.Sprintf("the loading Get did not receive the not-found result: got (%d,%v)", gotV, gotErr), "", false
	}
	if !effective.Load() {
		return "", "", true
	}
	wantPresent := false
	switch s.Write {
	case wkSet, wkComputeWrite, wkSetIfAbsent, wkComputeIfAbsent, wkComputeIfPresentWrite:
		wantPresent = true
	}
	e, ok := c.GetEntryQuietly(k)
	if ok && e.Value == vL {
		return fmt.Sprintf("%s was still inside its %s (not yet published) when the load of the key started and its loader returned; after both calls returned the cache holds the loaded value %d instead of the explicit write", writeKindNames[s.Write], parkNames[s.Park], vL), "", false
	}
	if wantPresent && (!ok || e.Value != vS) {
		return fmt.Sprintf("%s was published after the load of the key had started, but afterwards the key holds (%d, present=%v) instead of %d", writeKindNames[s.Write], e.Value, ok, vS), "", false
	}
	if !wantPresent && ok {
		return fmt.Sprintf("%s was published after the load of the key had started, but afterwards the key holds %d", writeKindNames[s.Write], e.Value), "", false
	}
	return "", "", false
}
