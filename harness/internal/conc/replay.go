package conc

import (
	"encoding/json"
	"fmt"
	"sync"
	"time"

	"github.com/maypok86/otter/v2"

	"otterverif/internal/core"
)

// Replay re-executes the workload recorded in a concurrent witness file. Concurrent cases are not
// deterministic: the recorded history and verdict are printed, then the same configuration is
// run again `times` times and any violation found is reported.
func Replay(col *core.Collector, data []byte, path string, times int) error {
	var head struct {
		Engine    string          `json:"engine"`
		Violation string          `json:"violation"`
		Trial     json.RawMessage `json:"trial"`
		Burst     json.RawMessage `json:"burst"`
		Scenario  json.RawMessage `json:"scenario"`
		Stress    json.RawMessage `json:"stress"`
		CaseSeed  uint64          `json:"case_seed"`
		Rounds    int             `json:"rounds"`
	}
	if err := json.Unmarshal(data, &head); err != nil {
		return err
	}
	fmt.Printf("recorded verdict (%s): %s\n", head.Engine, head.Violation)
	report := func(prop, v string) {
		if v != "" {
			fmt.Println("reproduced:", v)
			col.Violation(core.Violation{Property: prop, Signature: "replay:" + sigText(v), Detail: v, Replay: path})
		}
	}
	if head.Engine == "conc" {
		// the offline checker is deterministic: the recorded history of a linearizability trial is judged again first
		var rec struct {
			Trial   TrialCfg `json:"trial"`
			History [][]Rec  `json:"history"`
			Events  []Ev     `json:"events"`
		}
		if err := json.Unmarshal(data, &rec); err == nil && rec.Trial.Prop == "C02" && len(rec.History) > 0 {
			t := &Trial{Cfg: rec.Trial, Recs: rec.History, evs: rec.Events, base: time.Now()}
			t.evIdx.Store(int64(len(rec.Events)))
			if rec.Trial.ExpiryTTL > 0 {
				t.Clock = &phaseClock{}
			}
			lr := t.CheckLinearizable(map[int]linOut{}, 60*time.Second)
			fmt.Printf("recorded history re-checked offline: %d keys ok, %d illegal, %d unknown\n", lr.Ok, lr.Illegal, lr.Unknown)
			if lr.Illegal > 0 {
				fmt.Println(lr.Witness)
				report(rec.Trial.Prop, lr.Witness)
			}
		}
	}
	for i := 0; i < times && col.NumViolations() == 0; i++ {
		col.Eval(1)
		switch head.Engine {
		case "conc":
			var cfg TrialCfg
			if err := json.Unmarshal(head.Trial, &cfg); err != nil {
				return err
			}
			t, err := NewTrial(cfg)
			if err != nil {
				return err
			}
			t.Run()
			v, _ := judge(col, t, cfg.Prop)
			t.Close()
			report(cfg.Prop, v)
		case "burst":
			var cfg burstCfg
			if err := json.Unmarshal(head.Burst, &cfg); err != nil {
				return err
			}
			b, err := newBurst(cfg)
			if err != nil {
				return err
			}
			otter.VerifSetHook(b.hook)
			var wg sync.WaitGroup
			for w := 0; w < cfg.G; w++ {
				wg.Add(1)
				go func(w int) {
					defer wg.Done()
					b.worker(w, core.NewRng(core.Derive(cfg.Seed, 5, uint64(w))))
				}(w)
			}
			wg.Wait()
			b.wg.Wait()
			otter.VerifSetHook(nil)
			b.collectRefresh()
			v, _, _ := b.judgeBurst()
			report("C08", v)
		case "c09-scenario":
			var s scenario
			if err := json.Unmarshal(head.Scenario, &s); err != nil {
				return err
			}
			s.Rep = i
			out := runScenario(s)
			report("C09", out.violation)
		case "c09-witness":
			v, _ := witnessD8()
			report("C09", v)
		case "c09-stress":
			var cfg c09Stress
			if err := json.Unmarshal(head.Stress, &cfg); err != nil {
				return err
			}
			v, _, _, _, _ := runC09Stress(cfg)
			report("C09", v)
		case "c11":
			var cfg c11Cfg
			if err := json.Unmarshal(head.Scenario, &cfg); err != nil {
				return err
			}
			v, _, _ := runC11(cfg)
			report("C11", v)
		case "c03", "expiry-events":
			var cfg c03Cfg
			if err := json.Unmarshal(head.Trial, &cfg); err != nil {
				return err
			}
			v, ev, sv, _, _ := runC03All(cfg)
			report("C03", v)
			report("C06", ev)
			report("C20", sv)
		case "c05-shorten":
			report("C05", runC05Shorten(head.CaseSeed))
		case "c14-full":
			installDefaultExecutor()
			v, t, _ := runC14Full(head.CaseSeed)
			if t != nil {
				t.Close()
			}
			report("C14", v)
		case "c14-invall":
			installDefaultExecutor()
			v, t, _, _ := runC14InvAll(head.CaseSeed)
			if t != nil {
				t.Close()
			}
			report("C14", v)
		case "c14-pairs":
			installDefaultExecutor()
			v, t, _ := runC14Pairs(head.CaseSeed, max(head.Rounds, 1000), i%2 == 1)
			if t != nil {
				t.Close()
			}
			report("C14", v)
		case "c11-swap":
			v, _ := runC11Swap(head.CaseSeed)
			report("C11", v)
		case "c11-fresh":
			v, _ := runC11Fresh(head.CaseSeed)
			report("C11", v)
		case "c03-setter":
			v, _, _ := runC03Setter(head.CaseSeed)
			report("C03", v)
		case "c03-iter":
			v, _, _ := runC03Iter(head.CaseSeed)
			report("C03", v)
		case "table":
			var cfg tableCfg
			if err := json.Unmarshal(head.Trial, &cfg); err != nil {
				return err
			}
			v, _, _ := runTable(cfg)
			report("C15", v)
		case "mpsc":
			var cfg mpscCfg
			if err := json.Unmarshal(head.Trial, &cfg); err != nil {
				return err
			}
			v, _ := runMPSC(cfg)
			report("C16", v)
		case "cache-order":
			v, _, _ := cacheOrder(head.CaseSeed)
			report("C16", v)
		case "striped-burst":
			v, _, _ := runStripedBurst(head.CaseSeed, 400)
			report("C17", v)
		case "striped":
			var cfg stripedCfg
			if err := json.Unmarshal(head.Trial, &cfg); err != nil {
				return err
			}
			v, _ := runStriped(cfg)
			report("C17", v)
		case "sketch":
			v, _ := runSketch(head.CaseSeed)
			report("C18", v)
		case "admit":
			v, _, _ := runAdmit(head.CaseSeed)
			report("C18", v)
		case "policy-add":
			v, _ := runPolicyAdd(head.CaseSeed)
			report("C18", v)
		default:
			return fmt.Errorf("unknown engine %q in the replay file", head.Engine)
		}
	}
	if col.NumViolations() == 0 {
		fmt.Printf("not reproduced in %d re-executions of the recorded configuration (concurrent cases are not deterministic)\n", times)
	}
	return nil
}
