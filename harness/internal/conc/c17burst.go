package conc

import (
	"fmt"
	"runtime"
	"sync"
	"sync/atomic"
	"time"

	"github.com/maypok86/otter/v2"

	"otterverif/internal/core"
)

// runStripedBurst: the beginning of a striped buffer's life, over and over. Every mini round starts with a new
// buffer; 3-16 recorders are released at the same instant and add a handful of entries each, so that the table
// and its first stripes are created by several goroutines at once (with short delays under the busy flag, the
// yield point striped.busy, and after the tail CAS); nobody drains meanwhile. At quiescence two drains must
// deliver exactly the entries whose recording succeeded, each once.
func runStripedBurst(seed uint64, rounds int) (violation string, adds, created int64) {
	r := core.NewRng(seed)
	busy, tail, empty := siteIndex("striped.busy"), siteIndex("ring.tailCASed"), siteIndex("striped.slotEmpty")
	var ctr atomic.Uint64
	otter.VerifSetHook(func(site int) {
		if site == empty {
			// a recorder that has just found its stripe slot empty is held up: somebody else may create the stripe meanwhile
			if h := core.Mix(seed ^ ctr.Add(1)); h%2 == 0 {
				time.Sleep(time.Duration(h>>20%30+2) * time.Microsecond)
			}
			return
		}
		if site != busy && site != tail {
			return
		}
		switch h := core.Mix(seed ^ ctr.Add(1)); h % 4 {
		case 0:
			runtime.Gosched()
		case 1:
			time.Sleep(time.Duration(h>>20%20+1) * time.Microsecond)
		}
	})
	defer otter.VerifSetHook(nil)
	for round := 0; round < rounds; round++ {
		maxLen := []int{1, 2, 4, 8, 64}[r.Intn(5)]
		recs := 3 + r.Intn(14)
		per := 1 + r.Intn(6)
		total := recs * per
		s := otter.VerifNewStriped(maxLen, total)
		result := make([]int8, total)
		delivered := make([]int32, total)
		var arrived atomic.Int32
		var wg sync.WaitGroup
		for g := 0; g < recs; g++ {
			wg.Add(1)
			go func(g int) {
				defer wg.Done()
				arrived.Add(1)
				for arrived.Load() < int32(recs) {
					runtime.Gosched()
				}
				for i := 0; i < per; i++ {
					id := g*per + i
					switch s.Add(id) {
					case 0:
						result[id] = 1
					case -1:
						result[id] = 2
					case 1:
						result[id] = 3
					default:
						result[id] = 4
					}
				}
			}(g)
		}
		wg.Wait()
		progress.Add(1)
		bad := ""
		consumer := func(key int) {
			if key < 0 || key >= total {
				bad = fmt.Sprintf("the buffer delivered key %d, which was never recorded", key)
				return
			}
			delivered[key]++
		}
		s.DrainTo(consumer)
		s.DrainTo(consumer)
		if bad != "" {
			return bad, adds, created
		}
		for id := 0; id < total; id++ {
			adds++
			switch {
			case result[id] == 4 || result[id] == 0:
				return fmt.Sprintf("Add returned an unknown status for id %d", id), adds, created
			case delivered[id] > 1:
				return fmt.Sprintf("recorded entry %d was delivered %d times (new buffer, %d recorders released at once, %d adds each, max %d stripes)", id, delivered[id], recs, per, maxLen), adds, created
			case delivered[id] == 1 && result[id] != 1:
				return fmt.Sprintf("entry %d was delivered although recording it was refused (status %d)", id, result[id]), adds, created
			case delivered[id] == 0 && result[id] == 1:
				return fmt.Sprintf("entry %d was recorded successfully but not delivered by two drains at quiescence (new buffer, %d recorders released at once, %d adds each, max %d stripes)", id, recs, per, maxLen), adds, created
			}
		}
		created++
	}
	return "", adds, created
}
