package conc

import (
	"fmt"
	"sort"
	"time"

	"github.com/anishathalye/porcupine"
)

// linIn / linOut are the porcupine input and output of one per-key operation.
type linIn struct {
	Kind    int
	Key     int
	Arg     int
	Dec     int
	Invoked int
	SawOld  int
	SawOk   bool
}

type linOut struct {
	RV  int
	ROk bool
}

const (
	kRead     = 100
	kReadMiss = 101
)

func linStep(state, input, output any) (bool, any) {
	st := state.(int)
	in := input.(linIn)
	out := output.(linOut)
	switch in.Kind {
	case KSet:
		if st != 0 {
			return out.RV == st && !out.ROk, in.Arg
		}
		return out.RV == in.Arg && out.ROk, in.Arg
	case KSetIfAbsent:
		if st != 0 {
			return out.RV == st && !out.ROk, st
		}
		return out.RV == in.Arg && out.ROk, in.Arg
	case kRead:
		if out.ROk {
			return st == out.RV, st
		}
		return st == 0, st
	case kReadMiss:
		return st == 0, st
	case KCompute, KComputeIfPresent:
		if in.Kind == KComputeIfPresent && in.Invoked == 0 {
			return st == 0 && !out.ROk, st
		}
		if in.SawOk != (st != 0) || (in.SawOk && in.SawOld != st) || (!in.SawOk && in.Kind == KCompute && in.SawOld != 0) {
			return false, st // (an absent key comes with the zero value)
		}
		switch in.Dec {
		case DecWrite:
			return out.ROk && out.RV == in.Arg, in.Arg
		case DecInvalidate:
			return !out.ROk, 0
		default:
			if st == 0 {
				return !out.ROk, st
			}
			return out.ROk && out.RV == st, st
		}
	case KComputeIfAbsent:
		if in.Invoked == 0 {
			return st != 0 && out.ROk && out.RV == st, st
		}
		if st != 0 {
			return false, st
		}
		if in.Dec == DecWrite {
			return out.ROk && out.RV == in.Arg, in.Arg
		}
		return !out.ROk, st
	case KInvalidate:
		if out.ROk {
			return st == out.RV, 0
		}
		return st == 0, 0
	case KEvict:
		return st == in.Arg, 0
	case KInstall:
		return true, in.Arg
	}
	return false, st
}

var linModel = porcupine.Model{
	Init: func() any { return 0 },
	Step: linStep,
	DescribeOperation: func(input, output any) string {
		in := input.(linIn)
		out := output.(linOut)
		name := "?"
		switch {
		case in.Kind == kRead:
			name = "read"
		case in.Kind == kReadMiss:
			name = "readMiss"
		case in.Kind < len(KindNames):
			name = KindNames[in.Kind]
		}
		return fmt.Sprintf("%s(k=%d arg=%d dec=%d invoked=%d saw=(%d,%v)) -> (%d,%v)", name, in.Key, in.Arg, in.Dec, in.Invoked, in.SawOld, in.SawOk, out.RV, out.ROk)
	},
}

// LinResult summarises the linearizability check of a trial.
type LinResult struct {
	Keys       int
	Ok         int
	Illegal    int
	Unknown    int
	MaxOverlap int
	Ops        int
	Evicts     int
	Installs   int
	WaiterBounded int // installs whose end is bounded by the return of a waiter that received the value
	Witness    string // first illegal key's operations
	CallbackViolation string
}

// CheckLinearizable checks every key's sub-history of the trial against the sequential map.
func (t *Trial) CheckLinearizable(finals map[int]linOut, timeout time.Duration) LinResult {
	var res LinResult
	evs := t.Events()
	end := t.now()
	// loads by value: interval in which waiters may receive the value without it being cached
	type loadIv struct{ from, to int64 }
	loadsByVal := map[int]loadIv{}
	for _, rs := range t.Recs {
		for i := range rs {
			r := &rs[i]
			if r.Kind == KGet && r.LEnter != 0 && !r.LNF {
				loadsByVal[r.LVal] = loadIv{r.LEnter, r.Ret}
			}
		}
	}
	isWaiter := func(r *Rec) bool {
		if r.Kind != KGet || r.LEnter != 0 {
			return false
		}
		iv, ok := loadsByVal[r.RV]
		return ok && iv.from <= r.Ret && r.Call <= iv.to
	}
	// A waiter is released only after the load's outcome was applied to the table: when a waiter returned
	// the loaded value, the installation (if it happened at all) is over by then.
	firstWaiterRet := map[int]int64{}
	for _, rs := range t.Recs {
		for i := range rs {
			r := &rs[i]
			if isWaiter(r) {
				if cur, ok := firstWaiterRet[r.RV]; !ok || r.Ret < cur {
					firstWaiterRet[r.RV] = r.Ret
				}
			}
		}
	}
	// values observed as cached anywhere (to resolve whether a loaded value was installed)
	observed := map[int]bool{}
	for _, rs := range t.Recs {
		for i := range rs {
			r := &rs[i]
			if r.ROk && !(r.Kind == KGet && r.LEnter != 0) && !isWaiter(r) {
				observed[r.RV] = true
			}
			if r.SawOk {
				observed[r.SawOld] = true
			}
		}
	}
	for _, e := range evs {
		observed[e.Val] = true
	}
	for _, f := range finals {
		if f.ROk {
			observed[f.RV] = true
		}
	}
	byKey := map[int][]porcupine.Operation{}
	add := func(k int, op porcupine.Operation) { byKey[k] = append(byKey[k], op) }
	for w, rs := range t.Recs {
		for i := range rs {
			r := &rs[i]
			if r.Key >= t.Cfg.Keys {
				continue
			}
			in := linIn{Kind: r.Kind, Key: r.Key, Arg: r.Arg, Dec: r.Dec, Invoked: r.Invoked, SawOld: r.SawOld, SawOk: r.SawOk}
			out := linOut{RV: r.RV, ROk: r.ROk}
			switch r.Kind {
			case KSet, KSetIfAbsent, KInvalidate:
			case KGetIfPresent, KGetEntry:
				in.Kind = kRead
			case KCompute:
				if r.Invoked != 1 && res.CallbackViolation == "" {
					res.CallbackViolation = fmt.Sprintf("Compute(%d) by worker %d ran its function %d times", r.Key, w, r.Invoked)
				}
			case KComputeIfAbsent, KComputeIfPresent:
				if r.Invoked > 1 && res.CallbackViolation == "" {
					res.CallbackViolation = fmt.Sprintf("%s(%d) by worker %d ran its function %d times", KindNames[r.Kind], r.Key, w, r.Invoked)
				}
			case KGet:
				if r.LEnter != 0 {
					// this call ran the loader: it saw the key absent before, and may have installed afterwards
					add(r.Key, porcupine.Operation{ClientId: w, Input: linIn{Kind: kReadMiss, Key: r.Key}, Call: r.Call, Output: linOut{}, Return: r.LEnter})
					if !r.LNF && observed[r.LVal] {
						res.Installs++
						until := r.Ret
						if wr, ok := firstWaiterRet[r.LVal]; ok && wr < until && wr > r.LExit {
							until = wr
							res.WaiterBounded++
						}
						add(r.Key, porcupine.Operation{ClientId: w, Input: linIn{Kind: KInstall, Key: r.Key, Arg: r.LVal}, Call: r.LExit, Output: linOut{}, Return: until})
					}
					continue
				}
				if isWaiter(r) {
					// may be a waiter of that load: its result is the load's, not a map read
					continue
				}
				if r.Err != 0 {
					// waited for a load that answered not-found: all this call itself saw is the key absent
					add(r.Key, porcupine.Operation{ClientId: w, Input: linIn{Kind: kReadMiss, Key: r.Key}, Call: r.Call, Output: linOut{}, Return: r.Ret})
					continue
				}
				in.Kind = kRead
			default:
				continue
			}
			add(r.Key, porcupine.Operation{ClientId: w, Input: in, Call: r.Call, Output: out, Return: r.Ret})
		}
	}
	// automatic removals
	type kv struct{ k, v int }
	delAt := map[kv]int64{}
	for _, e := range evs {
		if !e.Atomic {
			delAt[kv{e.Key, e.Val}] = e.T
		}
	}
	returnedAsOld := map[kv]bool{}
	for _, rs := range t.Recs {
		for i := range rs {
			r := &rs[i]
			switch {
			case r.Kind == KInvalidate && r.ROk:
				returnedAsOld[kv{r.Key, r.RV}] = true
			case (r.Kind == KCompute || r.Kind == KComputeIfPresent) && r.Invoked > 0 && r.SawOk && r.Dec == DecInvalidate:
				returnedAsOld[kv{r.Key, r.SawOld}] = true
			}
		}
	}
	cid := t.Cfg.G
	for _, e := range evs {
		if !e.Atomic || e.Key >= t.Cfg.Keys {
			continue
		}
		nfRemoved := false
		if e.Cause == 1 && !returnedAsOld[kv{e.Key, e.Val}] {
			// not returned by any Invalidate / Compute: the removal a not-found load performs
			ok, late := t.nfRemoval(e)
			nfRemoved = ok
			if late != "" && res.CallbackViolation == "" {
				res.CallbackViolation = late
			}
		}
		if e.Cause == 3 || e.Cause == 4 || nfRemoved { // Overflow, Expiration, not-found load
			ret, ok := delAt[kv{e.Key, e.Val}]
			if !ok || ret < e.T {
				ret = end + 1
			}
			res.Evicts++
			add(e.Key, porcupine.Operation{ClientId: cid, Input: linIn{Kind: KEvict, Key: e.Key, Arg: e.Val}, Call: e.T, Output: linOut{}, Return: ret})
		}
	}
	for k, f := range finals {
		if k < t.Cfg.Keys {
			add(k, porcupine.Operation{ClientId: cid + 1, Input: linIn{Kind: kRead, Key: k}, Call: end + 2, Output: f, Return: end + 3})
		}
	}
	keys := make([]int, 0, len(byKey))
	for k := range byKey {
		keys = append(keys, k)
	}
	sort.Ints(keys)
	for _, k := range keys {
		ops := byKey[k]
		res.Keys++
		res.Ops += len(ops)
		if o := maxOverlap(ops); o > res.MaxOverlap {
			res.MaxOverlap = o
		}
		// client ids must be unique per concurrent operation for porcupine's bookkeeping
		for i := range ops {
			ops[i].ClientId = i
		}
		r, _ := porcupine.CheckOperationsVerbose(linModel, ops, timeout)
		switch r {
		case porcupine.Ok:
			res.Ok++
		case porcupine.Illegal:
			res.Illegal++
			if res.Witness == "" {
				sort.Slice(ops, func(i, j int) bool { return ops[i].Call < ops[j].Call })
				s := fmt.Sprintf("key %d has no linearization; its operations in call order:\n", k)
				for _, o := range ops {
					s += fmt.Sprintf("  [%d,%d] %s\n", o.Call, o.Return, linModel.DescribeOperation(o.Input, o.Output))
				}
				res.Witness = s
			}
		default:
			res.Unknown++
		}
	}
	return res
}

func maxOverlap(ops []porcupine.Operation) int {
	type pt struct {
		t int64
		d int
	}
	pts := make([]pt, 0, 2*len(ops))
	for _, o := range ops {
		pts = append(pts, pt{o.Call, 1}, pt{o.Return, -1})
	}
	sort.Slice(pts, func(i, j int) bool {
		if pts[i].t != pts[j].t {
			return pts[i].t < pts[j].t
		}
		return pts[i].d > pts[j].d
	})
	cur, best := 0, 0
	for _, p := range pts {
		cur += p.d
		if cur > best {
			best = cur
		}
	}
	return best
}
