package conc

import (
	"fmt"
	"sort"
	"time"

	"github.com/anishathalye/porcupine"
)

// linIn / linOut are the porcupine input and output of one per-key operation.
type linIn struct {
	Kind    int
	Key     int
	Arg     int
	Dec     int
	Invoked int
	SawOld  int
	SawOk   bool
	// trials with expiry (linexp.go): the manual clock before the call and after its return, the
	// lifetime a write gives an entry, whether reads reset it
	CLo, CHi int64
	TTL      int64
	Access   bool
}

type linOut struct {
	RV  int
	ROk bool
}

const (
	kRead       = 100
	kReadMiss   = 101
	kReadQuiet  = 102 // the final GetEntryQuietly: a read that resets nothing
	kMaybeTouch = 103 // access-reset expiry: the first phase of a ComputeIfPresent is a read of its own (it may reset the deadline of the entry it finds, whatever the second phase finds later)
)

func linStep(state, input, output any) (bool, any) {
	st := state.(int)
	in := input.(linIn)
	out := output.(linOut)
	switch in.Kind {
	case KSet:
		if st != 0 {
			return out.RV == st && !out.ROk, in.Arg
		}
		return out.RV == in.Arg && out.ROk, in.Arg
	case KSetIfAbsent:
		if st != 0 {
			return out.RV == st && !out.ROk, st
		}
		return out.RV == in.Arg && out.ROk, in.Arg
	case kRead, kReadQuiet:
		if out.ROk {
			return st == out.RV, st
		}
		return st == 0, st
	case kReadMiss:
		return st == 0, st
	case KCompute, KComputeIfPresent:
		if in.Kind == KComputeIfPresent && in.Invoked == 0 {
			return st == 0 && !out.ROk, st
		}
		if in.SawOk != (st != 0) || (in.SawOk && in.SawOld != st) || (!in.SawOk && in.Kind == KCompute && in.SawOld != 0) {
			return false, st // (an absent key comes with the zero value)
		}
		switch in.Dec {
		case DecWrite:
			return out.ROk && out.RV == in.Arg, in.Arg
		case DecInvalidate:
			return !out.ROk, 0
		default:
			if st == 0 {
				return !out.ROk, st
			}
			return out.ROk && out.RV == st, st
		}
	case KComputeIfAbsent:
		if in.Invoked == 0 {
			return st != 0 && out.ROk && out.RV == st, st
		}
		if st != 0 {
			return false, st
		}
		if in.Dec == DecWrite {
			return out.ROk && out.RV == in.Arg, in.Arg
		}
		return !out.ROk, st
	case KInvalidate:
		if out.ROk {
			return st == out.RV, 0
		}
		return st == 0, 0
	case KEvict:
		return st == in.Arg, 0
	case KInstall:
		return true, in.Arg
	}
	return false, st
}

var linModel = porcupine.Model{
	Init: func() any { return 0 },
	Step: linStep,
	DescribeOperation: func(input, output any) string {
		in := input.(linIn)
		out := output.(linOut)
		name := "?"
		switch {
		case in.Kind == kRead:
			name = "read"
		case in.Kind == kReadQuiet:
			name = "finalRead"
		case in.Kind == kMaybeTouch:
			name = "firstPhaseRead"
		case in.Kind == kReadMiss:
			name = "readMiss"
		case in.Kind < len(KindNames):
			name = KindNames[in.Kind]
		}
		return fmt.Sprintf("%s(k=%d arg=%d dec=%d invoked=%d saw=(%d,%v)) -> (%d,%v)", name, in.Key, in.Arg, in.Dec, in.Invoked, in.SawOld, in.SawOk, out.RV, out.ROk)
	},
}

// LinResult summarises the linearizability check of a trial.
type LinResult struct {
	Keys              int
	Ok                int
	Illegal           int
	Unknown           int
	MaxOverlap        int
	Ops               int
	Evicts            int
	Installs          int
	WaiterBounded     int    // installs whose end is bounded by the return of a waiter that received the value
	AmbiguousClock    int    // operations during which the manual clock moved
	Expirations       int    // removals reported with cause Expiration
	Witness           string // first illegal key's operations
	CallbackViolation string
}

// CheckLinearizable checks every key's sub-history of the trial against the sequential map.
func (t *Trial) CheckLinearizable(finals map[int]linOut, timeout time.Duration) LinResult {
	var res LinResult
	evs := t.Events()
	end := t.now()
	for _, rs := range t.Recs { // (a history re-checked offline: the stamps are those of the recording)
		for i := range rs {
			if rs[i].Ret > end {
				end = rs[i].Ret
			}
		}
	}
	for _, e := range evs {
		if e.T > end {
			end = e.T
		}
	}
	// trials with expiry are checked against the map-with-deadlines model of linexp.go
	model := linModel
	ttl, access := t.Cfg.ExpiryTTL, t.Cfg.ExpAccess
	var endClk int64
	if t.Clock != nil && t.Cfg.LinExp {
		model = linExpModel
		endClk = t.Clock.now.Load()
	}
	// loads by value: interval in which waiters may receive the value without it being cached
	type loadIv struct{ from, to int64 }
	loadsByVal := map[int]loadIv{}
	for _, rs := range t.Recs {
		for i := range rs {
			r := &rs[i]
			if r.Kind == KGet && r.LEnter != 0 && !r.LNF {
				loadsByVal[r.LVal] = loadIv{r.LEnter, r.Ret}
			}
		}
	}
	isWaiter := func(r *Rec) bool {
		if r.Kind != KGet || r.LEnter != 0 {
			return false
		}
		iv, ok := loadsByVal[r.RV]
		return ok && iv.from <= r.Ret && r.Call <= iv.to
	}
	// A waiter is released only after the load's outcome was applied to the table: when a waiter returned
	// the loaded value, the installation (if it happened at all) is over by then.
	firstWaiterRet := map[int]int64{}
	for _, rs := range t.Recs {
		for i := range rs {
			r := &rs[i]
			if isWaiter(r) {
				if cur, ok := firstWaiterRet[r.RV]; !ok || r.Ret < cur {
					firstWaiterRet[r.RV] = r.Ret
				}
			}
		}
	}
	// values observed as cached anywhere (to resolve whether a loaded value was installed)
	observed := map[int]bool{}
	for _, rs := range t.Recs {
		for i := range rs {
			r := &rs[i]
			if r.ROk && !(r.Kind == KGet && r.LEnter != 0) && !isWaiter(r) {
				observed[r.RV] = true
			}
			if (r.Kind == KSet || r.Kind == KSetIfAbsent) && !r.ROk {
				observed[r.RV] = true // the value these calls found
			}
			if r.SawOk {
				observed[r.SawOld] = true
			}
		}
	}
	for _, e := range evs {
		observed[e.Val] = true
	}
	for _, f := range finals {
		if f.ROk {
			observed[f.RV] = true
		}
	}
	byKey := map[int][]porcupine.Operation{}
	add := func(k int, op porcupine.Operation) { byKey[k] = append(byKey[k], op) }
	for w, rs := range t.Recs {
		for i := range rs {
			r := &rs[i]
			if r.Key >= t.Cfg.Keys {
				continue
			}
			in := linIn{Kind: r.Kind, Key: r.Key, Arg: r.Arg, Dec: r.Dec, Invoked: r.Invoked, SawOld: r.SawOld, SawOk: r.SawOk,
				CLo: r.ClkLo, CHi: r.ClkHi, TTL: ttl, Access: access}
			out := linOut{RV: r.RV, ROk: r.ROk}
			switch r.Kind {
			case KSet, KSetIfAbsent, KInvalidate:
			case KGetIfPresent, KGetEntry:
				in.Kind = kRead
			case KCompute:
				if r.Invoked != 1 && res.CallbackViolation == "" {
					res.CallbackViolation = fmt.Sprintf("Compute(%d) by worker %d ran its function %d times", r.Key, w, r.Invoked)
				}
			case KComputeIfAbsent, KComputeIfPresent:
				if r.Invoked > 1 && res.CallbackViolation == "" {
					res.CallbackViolation = fmt.Sprintf("%s(%d) by worker %d ran its function %d times", KindNames[r.Kind], r.Key, w, r.Invoked)
				}
				if access && t.Cfg.LinExp && r.Kind == KComputeIfPresent {
					mt := in
					mt.Kind = kMaybeTouch
					mt.Arg = 0
					add(r.Key, porcupine.Operation{ClientId: w, Input: mt, Call: r.Call, Output: linOut{}, Return: r.Ret})
				}
			case KGet:
				if r.LEnter != 0 {
					// this call ran the loader: it saw the key absent before, and may have installed afterwards
					add(r.Key, porcupine.Operation{ClientId: w, Input: linIn{Kind: kReadMiss, Key: r.Key, CLo: r.ClkLo, CHi: r.LClkEnter, TTL: ttl, Access: access}, Call: r.Call, Output: linOut{}, Return: r.LEnter})
					if !r.LNF && observed[r.LVal] {
						res.Installs++
						until := r.Ret
						if wr, ok := firstWaiterRet[r.LVal]; ok && wr < until && wr > r.LExit {
							until = wr
							res.WaiterBounded++
						}
						add(r.Key, porcupine.Operation{ClientId: w, Input: linIn{Kind: KInstall, Key: r.Key, Arg: r.LVal, CLo: r.LClkExit, CHi: r.ClkHi, TTL: ttl, Access: access}, Call: r.LExit, Output: linOut{}, Return: until})
					}
					continue
				}
				if isWaiter(r) {
					// may be a waiter of that load: its result is the load's, not a map read
					if access && t.Cfg.LinExp {
						// ... or a read that found the loaded value cached - and reset its deadline
						mt := in
						mt.Kind = kMaybeTouch
						mt.Arg = r.RV
						add(r.Key, porcupine.Operation{ClientId: w, Input: mt, Call: r.Call, Output: linOut{}, Return: r.Ret})
					}
					continue
				}
				if r.Err != 0 {
					// waited for a load that answered not-found: all this call itself saw is the key absent
					add(r.Key, porcupine.Operation{ClientId: w, Input: linIn{Kind: kReadMiss, Key: r.Key, CLo: r.ClkLo, CHi: r.ClkHi, TTL: ttl, Access: access}, Call: r.Call, Output: linOut{}, Return: r.Ret})
					continue
				}
				in.Kind = kRead
			default:
				continue
			}
			if r.ClkLo != r.ClkHi {
				res.AmbiguousClock++
			}
			add(r.Key, porcupine.Operation{ClientId: w, Input: in, Call: r.Call, Output: out, Return: r.Ret})
		}
	}
	// automatic removals
	type kv struct{ k, v int }
	delAt := map[kv]int64{}
	for _, e := range evs {
		if !e.Atomic {
			delAt[kv{e.Key, e.Val}] = e.T
		}
	}
	returnedAsOld := map[kv]bool{}
	for _, rs := range t.Recs {
		for i := range rs {
			r := &rs[i]
			switch {
			case r.Kind == KInvalidate && r.ROk:
				returnedAsOld[kv{r.Key, r.RV}] = true
			case (r.Kind == KCompute || r.Kind == KComputeIfPresent) && r.Invoked > 0 && r.SawOk && r.Dec == DecInvalidate:
				returnedAsOld[kv{r.Key, r.SawOld}] = true
			}
		}
	}
	cid := t.Cfg.G
	for _, e := range evs {
		if !e.Atomic || e.Key >= t.Cfg.Keys {
			continue
		}
		nfRemoved := false
		if e.Cause == 1 && !returnedAsOld[kv{e.Key, e.Val}] {
			// not returned by any Invalidate / Compute: the removal a not-found load performs
			ok, late := t.nfRemoval(e)
			nfRemoved = ok
			if late != "" && res.CallbackViolation == "" {
				res.CallbackViolation = late
			}
		}
		if e.Cause == 3 || e.Cause == 4 || nfRemoved { // Overflow, Expiration, not-found load
			ret, ok := delAt[kv{e.Key, e.Val}]
			if !ok || ret < e.T {
				ret = end + 1
			}
			res.Evicts++
			if e.Cause == 4 {
				res.Expirations++
			}
			add(e.Key, porcupine.Operation{ClientId: cid, Input: linIn{Kind: KEvict, Key: e.Key, Arg: e.Val, Dec: e.Cause, CLo: e.Clk, CHi: e.Clk, TTL: ttl, Access: access}, Call: e.T, Output: linOut{}, Return: ret})
		}
	}
	for k, f := range finals {
		if k < t.Cfg.Keys {
			add(k, porcupine.Operation{ClientId: cid + 1, Input: linIn{Kind: kReadQuiet, Key: k, CLo: endClk, CHi: endClk, TTL: ttl, Access: access}, Call: end + 2, Output: f, Return: end + 3})
		}
	}
	keys := make([]int, 0, len(byKey))
	for k := range byKey {
		keys = append(keys, k)
	}
	sort.Ints(keys)
	for _, k := range keys {
		ops := byKey[k]
		res.Keys++
		res.Ops += len(ops)
		if o := maxOverlap(ops); o > res.MaxOverlap {
			res.MaxOverlap = o
		}
		// client ids must be unique per concurrent operation for porcupine's bookkeeping
		for i := range ops {
			ops[i].ClientId = i
		}
		r, _ := porcupine.CheckOperationsVerbose(model, ops, timeout)
		switch r {
		case porcupine.Ok:
			res.Ok++
		case porcupine.Illegal:
			res.Illegal++
			if res.Witness == "" {
				sort.Slice(ops, func(i, j int) bool { return ops[i].Call < ops[j].Call })
				s := fmt.Sprintf("key %d has no linearization; its operations in call order:\n", k)
				if short := shortestIllegalPrefix(model, ops, timeout); short != nil && len(short) < len(ops) {
					s = fmt.Sprintf("key %d has no linearization; the shortest prefix of its history, cut where no operation of the key was in progress, that has none (%d of %d operations), in call order:\n", k, len(short), len(ops))
					var after []porcupine.Operation
					for _, o := range ops {
						if o.Call > short[len(short)-1].Call && len(after) < 12 {
							after = append(after, o)
						}
					}
					ops = short
					defer func() {
						s := "  operations called after the cut (context):\n"
						for _, o := range after {
							s += fmt.Sprintf("  [%d,%d] %s\n", o.Call, o.Return, model.DescribeOperation(o.Input, o.Output))
						}
						res.Witness += s
					}()
				}
				for _, o := range ops {
					s += fmt.Sprintf("  [%d,%d] %s\n", o.Call, o.Return, model.DescribeOperation(o.Input, o.Output))
				}
				res.Witness = s + stuckAt(model, ops, timeout)
			}
		default:
			res.Unknown++
		}
	}
	return res
}

func maxOverlap(ops []porcupine.Operation) int {
	type pt struct {
		t int64
		d int
	}
	pts := make([]pt, 0, 2*len(ops))
	for _, o := range ops {
		pts = append(pts, pt{o.Call, 1}, pt{o.Return, -1})
	}
	sort.Slice(pts, func(i, j int) bool {
		if pts[i].t != pts[j].t {
			return pts[i].t < pts[j].t
		}
		return pts[i].d > pts[j].d
	})
	cur, best := 0, 0
	for _, p := range pts {
		cur += p.d
		if cur > best {
			best = cur
		}
	}
	return best
}

// shortestIllegalPrefix cuts an illegal history (sorted by call time) at the earliest quiescent point of the
// key (an instant that no operation of the key spans) at which it is already illegal: everything before such
// a point had returned before anything after it was called, so the prefix is a complete history of its own.
func shortestIllegalPrefix(model porcupine.Model, ops []porcupine.Operation, timeout time.Duration) []porcupine.Operation {
	var maxRet int64 = -1 << 62
	for n := 1; n < len(ops); n++ {
		if ops[n-1].Return > maxRet {
			maxRet = ops[n-1].Return
		}
		if n < 2 || maxRet >= ops[n].Call {
			continue
		}
		pre := append([]porcupine.Operation(nil), ops[:n]...)
		for i := range pre {
			pre[i].ClientId = i
		}
		if r, _ := porcupine.CheckOperationsVerbose(model, pre, timeout/4); r == porcupine.Illegal {
			return pre
		}
	}
	return nil
}

// stuckAt describes where the search gets stuck: the longest order of operations that the model accepts (its
// last steps with the model state after each) and the operations that were callable next but are rejected.
func stuckAt(model porcupine.Model, ops []porcupine.Operation, timeout time.Duration) string {
	for i := range ops {
		ops[i].ClientId = i
	}
	_, info := porcupine.CheckOperationsVerbose(model, ops, timeout/4)
	parts := info.PartialLinearizationsOperations()
	if len(parts) == 0 {
		return ""
	}
	var best []porcupine.Operation
	for _, pl := range parts[0] {
		if len(pl) > len(best) {
			best = pl
		}
	}
	type id struct{ c, r int64 }
	done := map[id]bool{}
	st := model.Init()
	var lines []string
	for _, o := range best {
		_, st = model.Step(st, o.Input, o.Output)
		done[id{o.Call, o.Return}] = true
		d := fmt.Sprint(st)
		if model.DescribeState != nil {
			d = model.DescribeState(st)
		}
		lines = append(lines, fmt.Sprintf("  [%d,%d] %s   => %s\n", o.Call, o.Return, model.DescribeOperation(o.Input, o.Output), d))
	}
	if len(lines) > 8 {
		lines = lines[len(lines)-8:]
	}
	s := fmt.Sprintf("  the longest order the model accepts has %d of the %d operations; its last steps and the state after each:\n", len(best), len(ops))
	for _, l := range lines {
		s += l
	}
	var minRet int64 = 1 << 62
	for _, o := range ops {
		if !done[id{o.Call, o.Return}] && o.Return < minRet {
			minRet = o.Return
		}
	}
	s += "  operations that could come next (none is accepted in that state):\n"
	for _, o := range ops {
		if !done[id{o.Call, o.Return}] && o.Call <= minRet {
			s += fmt.Sprintf("  [%d,%d] %s\n", o.Call, o.Return, model.DescribeOperation(o.Input, o.Output))
		}
	}
	return s
}
