package conc

import (
	"encoding/json"
	"fmt"
	"os"
	"path/filepath"
	"runtime"
	"strings"
	"sync"
	"time"

	"github.com/maypok86/otter/v2"

	"otterverif/internal/core"
)

func mix(pairs ...int) []int {
	m := make([]int, numKinds)
	for i := 0; i+1 < len(pairs); i += 2 {
		m[pairs[i]] = pairs[i+1]
	}
	return m
}

// genTrial draws the configuration of trial i of a property.
func genTrial(prop, variant string, seed uint64, i int) TrialCfg {
	r := core.NewRng(core.Derive(seed, core.StrLabel(prop), core.StrLabel(variant), uint64(i)))
	c := TrialCfg{Prop: prop, Seed: r.U64(), Index: i}
	c.G = 2 + r.Intn(7)
	if r.Chance(1, 6) {
		c.G = 9 + r.Intn(8)
	}
	c.Keys = 1 + r.Intn(6)
	c.Ops = 20 + r.Intn(60)
	c.InitCap = []int{0, 0, 1, 3, 16, 1000}[r.Intn(6)]
	c.DelayPerM = []int{0, 20, 60, 150, 300}[r.Intn(5)]
	c.Exec = r.Intn(2)
	switch r.Intn(3) {
	case 0:
		c.SizeKind = 0
	case 1:
		c.SizeKind = 1
		c.Max = uint64(1 + r.Intn(6))
	default:
		c.SizeKind = 2
		c.Max = uint64(1 + r.Intn(8))
	}
	rw := mix(KSet, 12, KSetIfAbsent, 5, KGetIfPresent, 8, KGetEntry, 3, KCompute, 8, KComputeIfAbsent, 5, KComputeIfPresent, 5, KInvalidate, 6)
	switch prop {
	case "C02":
		c.Mix = rw
		if r.Chance(1, 2) {
			c.Mix[KGet] = 6
		}
		if r.Chance(1, 3) {
			c.Churn = 300 + r.Intn(2500)
			c.InitCap = 0
		}
		if r2 := core.NewRng(core.Derive(seed, core.StrLabel("C02stampede"), core.StrLabel(variant), uint64(i))); c.Churn > 0 && r2.Chance(1, 3) {
			// several churn goroutines fill the table at the same moment: several of them decide to grow it at once
			c.ChurnG = 6 + r2.Intn(12)
		}
		// keep each key's history small enough for the checker
		for c.G*c.Ops/c.Keys > 150 {
			c.Ops = c.Ops * 2 / 3
		}
	case "C04", "C05", "C06":
		c.Mix = rw
		if c.SizeKind == 0 && prop != "C06" {
			c.SizeKind = 1 + r.Intn(2)
			c.Max = uint64(1 + r.Intn(8))
		}
		c.Keys = 2 + r.Intn(14)
		c.Mix[KGetIfPresent] = 14
		c.Exec = r.Intn(3)
		if c.SizeKind != 0 && r.Chance(1, 2) {
			c.Mix[KSetMaximum] = 2
			c.MaxChoices = []uint64{0, 1, 2, c.Max, c.Max + 3, 2 * c.Max}
		}
		if r.Chance(1, 3) {
			c.Mix[KInvalidateAll] = 1
		}
		if prop != "C06" && r.Chance(1, 3) {
			c.Mix[KHottest], c.Mix[KColdest], c.Mix[KGetMaximum], c.Mix[KWeightedSize], c.Mix[KCleanUp] = 1, 1, 1, 1, 1
		}
		if r.Chance(1, 4) {
			c.Mix[KGet] = 5
		}
		if r.Chance(1, 4) || (c.SizeKind == 0 && r.Chance(1, 3)) {
			c.Churn = 200 + r.Intn(1500) // (an unbounded cache keeps the churn keys: its table really grows)
		}
		if prop != "C06" && r.Chance(1, 3) {
			// expiry on top of the size bound: entries that expired but were not swept are written over,
			// invalidated and conditionally set while the policy still tracks their nodes
			c.ExpiryTTL = []int64{1000, 1_000_000, 500_000_000}[r.Intn(3)]
			c.Mix[KAdvance] = 6
			c.Churn = 0
		}
		c.Ops = 30 + r.Intn(120)
		if r.Chance(1, 10) {
			// a stalled pool: maintenance tasks are only queued, the write buffer (128 x rounded CPU count
			// slots) fills up and writers apply their own event under the eviction lock
			c.Exec = ExecQueued
			if c.SizeKind == 0 {
				c.SizeKind = 1
				c.Max = uint64(1 + r.Intn(40))
			}
			c.Ops = 2600/c.G + r.Intn(300)
			c.Churn = 0
		}
	case "C14":
		c.Exec = ExecDefault
		if c.SizeKind == 0 {
			c.SizeKind = 1
			c.Max = uint64(1 + r.Intn(6))
		}
		c.G = 2 + r.Intn(7)
		c.Ops = 5 + r.Intn(46)
		c.Keys = 2 + r.Intn(12)
		c.Mix = mix(KSet, 14, KSetIfAbsent, 3, KGetIfPresent, 10, KCompute, 5, KInvalidate, 5,
			KHottest, 2, KColdest, 2, KInvalidateAll, 1, KGetMaximum, 1, KWeightedSize, 1, KCleanUp, 1, KAll, 1)
		if r.Chance(1, 2) {
			c.Mix[KSetMaximum] = 1
			c.MaxChoices = []uint64{1, 2, c.Max, c.Max + 3}
		}
		if r.Chance(1, 3) {
			// pure writers and readers: the plain protocol
			c.Mix = mix(KSet, 14, KGetIfPresent, 10, KInvalidate, 4)
		}
		c.DelayPerM = []int{0, 50, 150, 300, 500}[r.Intn(5)]
	case "C20":
		c.Mix = rw
		c.Mix[KGet] = 6
		c.Stats = true
		c.Exec = r.Intn(3)
	}
	c.Procs = []int{0, 0, 2, 4, 3, 5, 7}[r.Intn(7)] // parallel table copies split by GOMAXPROCS: also non powers of two
	if c.Churn > 0 && c.SizeKind == 0 && r.Chance(1, 2) {
		c.Procs = []int{3, 5, 6, 7}[r.Intn(4)] // a growing table with a chunk count that does not divide its length
	}
	return c
}

type spec struct {
	quick, thorough int // trials for the plain variant
	raceDiv         int // race variants run 1/raceDiv as many
	rule            string
}

var specs = map[string]spec{
	"C02": {1500, 30000, 3, "a trial = G goroutines x mixed single-key operations on few keys (optionally with table churn and a tiny maximum), history recorded at the call boundary and checked per key with porcupine; non-trivial = at least one key whose history has 2 or more overlapping operations; distinct = hash of the recorded history"},
	"C04": {1800, 40000, 3, "a trial = concurrent inserts/updates/reads/invalidations/SetMaximum on a bounded cache with PRNG delays between table update and write-buffer publish; judged after all calls returned, the executor is idle and one CleanUp; non-trivial = at least one automatic removal and at least 2 workers overlapping; distinct = hash of the recorded history"},
	"C05": {1800, 40000, 3, "same workload as C04; judged by the view equalities and the structural audit of the policy state at quiescence; non-trivial = at least one automatic removal and one update of a present key; distinct = hash of the recorded history"},
	"C06": {1800, 40000, 3, "a trial = concurrent writers/invalidators/readers with and without a size bound, sync and async executors; both handlers' logs checked for exactly-once, conservation, cause and per-key order; non-trivial = at least 5 deletion events; distinct = hash of the recorded history"},
	"C14": {12000, 300000, 4, "a very short trial (2-8 goroutines x 5-50 operations incl. every eviction-lock holder) on a bounded cache with the default executor made countable; judged by the audit at quiescence WITHOUT any further cache call; non-trivial = at least one write published while maintenance was running or scheduled (hook log) ; distinct = hash of the recorded history"},
	"C20": {1200, 30000, 3, "a concurrent trial with a stats.Counter; totals compared with the recorded operations and events at quiescence; non-trivial = at least 20 counted lookups; distinct = hash of the recorded history"},
}

// Run executes the trials of one shard.
func Run(col *core.Collector, prop, tier, variant string, seed uint64, shard, nshards int, replayDir, outBase string) {
	sp, ok := specs[prop]
	if !ok {
		col.Inconclusive("no concurrent spec for " + prop)
		return
	}
	col.Note("rule: " + sp.rule)
	n := sp.quick
	if tier == "thorough" {
		n = sp.thorough
	}
	if variant != "plain" {
		n /= sp.raceDiv
	}
	dumpPath := filepath.Join(replayDir, fmt.Sprintf("%s-stall-%s-%d.txt", prop, variant, shard))
	var cur atomicCfg
	wd := StartWatchdog(30*time.Second, dumpPath, func(dump string) {
		cfg := cur.get()
		col.Violation(core.Violation{
			Property:  prop,
			Signature: "stall",
			Detail:    fmt.Sprintf("no operation completed for 30 s: calls do not return (trial %+v); goroutine dump in the replay file; first blocked frames: %s", cfg, firstFrames(dump)),
			Replay:    dumpPath,
		})
		col.Write(outBase)
		os.Exit(0)
	})
	sites := otter.VerifSiteNames()
	siteTotals := make([]int64, len(sites))
	total := n
	if prop == "C02" {
		total = n + n/2 // the trials from n on have expiring entries and a clock moved by the workers (linexp.go)
		if tier == "thorough" {
			total = n + n/4
		}
	}
	first := shard
	if os.Getenv("VERIF_LINEXP_ONLY") != "" && prop == "C02" {
		first = n + shard // (debugging aid: only the trials with expiring entries)
	}
	for i := first; i < total; i += nshards {
		cfg := genTrial(prop, variant, seed, i)
		if i >= n {
			cfg = genLinExpTrial(prop, variant, seed, i)
		}
		cur.set(cfg)
		if cfg.Procs > 0 {
			runtime.GOMAXPROCS(cfg.Procs)
		} else {
			runtime.GOMAXPROCS(runtime.NumCPU())
		}
		t, err := NewTrial(cfg)
		if err != nil {
			col.Inconclusive(fmt.Sprintf("trial %d: %v", i, err))
			continue
		}
		wd.Arm()
		t.Run()
		wd.Disarm()
		col.Eval(1)
		if t.EventsLost() {
			col.Inconclusive(fmt.Sprintf("trial %d: the event buffer overflowed, not judged", i))
			t.Close()
			continue
		}
		violation, nontrivial := judge(col, t, prop)
		for s := range siteTotals {
			siteTotals[s] += t.hookHit[s].Load()
		}
		h := core.HashJSON(t.Recs)
		if nontrivial {
			col.NonTrivial(h)
		}
		if col.NumSamples() < 2 && nontrivial {
			col.Sample(map[string]any{"trial": cfg, "history_excerpt_key0": t.HistoryExcerpt(0, 12), "events": len(t.Events())})
		}
		if violation != "" {
			path := filepath.Join(replayDir, fmt.Sprintf("%s-conc-%x.json", prop, h))
			data, _ := json.MarshalIndent(map[string]any{"engine": "conc", "trial": cfg, "violation": violation, "history": t.Recs, "events": t.Events()}, "", " ")
			os.WriteFile(path, data, 0o644)
			col.Violation(core.Violation{Property: prop, Signature: "conc:" + sigText(violation), Detail: violation + fmt.Sprintf(" (trial %+v)", cfg), Replay: path})
		}
		t.Close()
		if col.NumViolations() >= 6 {
			break
		}
	}
	for s, n := range siteTotals {
		if n > 0 {
			col.Count("hook."+sites[s], n)
		}
	}
	if prop == "C05" && variant == "plain" && col.NumViolations() == 0 {
		runC05ShortenAll(col, tier, seed, shard, nshards, replayDir)
	}
	if classes := lateClasses[prop]; classes != nil && col.NumViolations() == 0 {
		runtime.GOMAXPROCS(runtime.NumCPU())
		RunLate(col, prop, classes, tier, variant, shard, nshards, replayDir)
	}
	if prop == "C14" && col.NumViolations() == 0 {
		runtime.GOMAXPROCS(runtime.NumCPU())
		runC14PairsAll(col, tier, variant, seed, shard, replayDir, wd)
	}
}

// genLinExpTrial draws a linearizability trial with expiring entries: write-reset or access-reset expiry,
// lifetimes from far below to about one timer-wheel tick, a manual clock that the workers move while the
// others are inside cache calls - by less than a lifetime, by several, and past wheel ticks, so that entries
// are read, written over, computed on and invalidated while alive, while expired but not swept, and while
// the sweep is removing them.
func genLinExpTrial(prop, variant string, seed uint64, i int) TrialCfg {
	c := genTrial(prop, variant, seed, i)
	r := core.NewRng(core.Derive(seed, core.StrLabel(prop), core.StrLabel(variant), core.StrLabel("linexp"), uint64(i)))
	c.Churn = 0
	c.LinExp = true
	c.ExpiryTTL = []int64{1000, 1_000_000, 500_000_000, 1 << 30}[r.Intn(4)]
	c.ExpAccess = r.Chance(1, 2)
	c.Mix[KAdvance] = 3 + r.Intn(8)
	if r.Chance(1, 3) {
		c.Mix[KCleanUp] = 2
	}
	c.Exec = r.Intn(2)
	// the deadline intervals multiply the states the checker has to tell apart: shorter histories, fewer
	// operations in progress at once
	if c.G > 8 {
		c.G = 3 + r.Intn(6)
	}
	for c.G*c.Ops/c.Keys > 70 {
		c.Ops = c.Ops * 2 / 3
	}
	return c
}

// lateClasses: the violation classes of the late-extension scenarios (late.go) that refute a property.
var lateClasses = map[string][]string{
	"C02": {"result"},
	"C05": {"views", "audit"},
	"C06": {"events"},
}

type atomicCfg struct {
	v atomicValue
}

type atomicValue struct {
	p *TrialCfg
}

func (a *atomicCfg) set(c TrialCfg) { a.v.p = &c }
func (a *atomicCfg) get() TrialCfg {
	if a.v.p == nil {
		return TrialCfg{}
	}
	return *a.v.p
}

func firstFrames(dump string) string {
	var out []string
	for _, l := range strings.Split(dump, "\n") {
		if strings.HasPrefix(l, "github.com/maypok86/otter/v2") {
			out = append(out, strings.TrimSpace(l))
			if len(out) >= 6 {
				break
			}
		}
	}
	return strings.Join(out, " | ")
}

func sigText(s string) string {
	var b strings.Builder
	for _, r := range s {
		switch {
		case r >= '0' && r <= '9':
		case r == ' ' || r == ',' || r == ':' || r == '\n':
			if b.Len() > 0 && b.String()[b.Len()-1] != '_' {
				b.WriteByte('_')
			}
		case r == '(' || r == ')' || r == '=' || r == '-':
		default:
			b.WriteRune(r)
		}
		if b.Len() > 60 {
			break
		}
	}
	return b.String()
}

// judge applies the property's oracles to a finished trial.
func judge(col *core.Collector, t *Trial, prop string) (violation string, nontrivial bool) {
	cfg := &t.Cfg
	// C14 is judged before anything else touches the cache.
	if prop == "C14" {
		s := t.Cache.VerifAudit()
		v := t.CheckAudit(s, true)
		var atomicN, delN int
		for _, e := range t.Events() {
			if e.Atomic {
				atomicN++
			} else {
				delN++
			}
		}
		if v == "" && atomicN != delN {
			v = fmt.Sprintf("%d values were reported to OnAtomicDeletion but only %d OnDeletion notifications were delivered without a further cache call", atomicN, delN)
		}
		col.Count("events.atomic", int64(atomicN))
		col.Count("executor_tasks", t.tasks.Load())
		pushed := t.hookHit[siteIndex("write.pushed")].Load()
		drains := t.hookHit[siteIndex("drain.enter")].Load()
		col.Count("writes_published", pushed)
		col.Count("drain_tasks", drains)
		for i, name := range []string{"idle", "required", "processingToIdle", "processingToRequired"} {
			col.Count("drain_status_seen_by_writers."+name, t.statusAtWrite[i].Load())
		}
		if v != "" {
			v = "stranded maintenance: " + v
		}
		return v, pushed >= 2 && drains >= 1
	}
	// one CleanUp, then wait for the executor
	t.Cache.CleanUp()
	t.Settle()
	f := t.Gather()
	t.Settle()
	evs := t.Events()
	autos := 0
	for _, e := range evs {
		if e.Atomic && (e.Cause == 3 || e.Cause == 4) {
			autos++
		}
	}
	col.Count("events.total", int64(len(evs)))
	col.Count("events.automatic", int64(autos))
	col.Count("table.growths", f.Snap.TableStats.Growths)
	col.Count("table.shrinks", f.Snap.TableStats.Shrinks)
	col.Max("table.chain", int64(f.Snap.TableStats.MaxChain))
	var nops int64
	for _, rs := range t.Recs {
		nops += int64(len(rs))
		for _, r := range rs {
			col.Count("op."+KindNames[r.Kind], 1)
		}
	}
	col.Count("operations", nops)
	switch prop {
	case "C02":
		col.Count("churn.readbacks", t.churnReads.Load())
		if p := t.churnViolation.Load(); p != nil {
			return *p, true
		}
		limit := 20 * time.Second
		if cfg.LinExp {
			limit = 6 * time.Second
		}
		lr := t.CheckLinearizable(t.Finals(f), limit)
		col.Count("lin.keys_ok", int64(lr.Ok))
		col.Count("lin.keys_illegal", int64(lr.Illegal))
		col.Count("lin.keys_unknown", int64(lr.Unknown))
		col.Count("lin.operations", int64(lr.Ops))
		col.Count("lin.evict_operations", int64(lr.Evicts))
		col.Count("lin.load_installs", int64(lr.Installs))
		col.Count("lin.load_installs_bounded_by_waiter", int64(lr.WaiterBounded))
		if cfg.LinExp {
			col.Count("linexp.trials", 1)
			col.Count("linexp.keys_ok", int64(lr.Ok))
			col.Count("linexp.operations", int64(lr.Ops))
			col.Count("linexp.ops_with_ambiguous_clock", int64(lr.AmbiguousClock))
			col.Count("linexp.expiration_removals", int64(lr.Expirations))
			if cfg.ExpAccess {
				col.Count("linexp.trials_access_reset", 1)
			}
		}
		col.Max("lin.overlap", int64(lr.MaxOverlap))
		if lr.Unknown > 0 {
			col.Inconclusive(fmt.Sprintf("trial %d: %d key histories timed out in the checker", cfg.Index, lr.Unknown))
		}
		if lr.CallbackViolation != "" {
			return lr.CallbackViolation, true
		}
		if lr.Illegal > 0 {
			return lr.Witness, true
		}
		return "", lr.MaxOverlap >= 2
	case "C04":
		v := t.CheckBound(f)
		if v == "" {
			if msg, _ := t.zeroWeightOverflow(); msg != "" {
				v = msg
			}
		}
		return v, autos >= 1 && cfg.G >= 2
	case "C05":
		v := t.CheckViews(f)
		if v == "" {
			v = t.CheckAudit(f.Snap, true)
		}
		updates := 0
		for _, rs := range t.Recs {
			for _, r := range rs {
				if r.Kind == KSet && !r.ROk {
					updates++
				}
			}
		}
		return v, autos >= 1 && updates >= 1
	case "C06":
		v, st := t.CheckEvents(f)
		col.Count("c06.atomic_events", int64(st.Atomic))
		col.Count("c06.certain_values", int64(st.Certain))
		col.Count("c06.chain_pairs_checked", int64(st.ChainPairs))
		col.Count("c06.keys_with_replacement_and_eviction", int64(st.Racing))
		for c := 1; c <= 4; c++ {
			col.Count("c06.cause."+otter.DeletionCause(c).String(), int64(st.ByCause[c]))
		}
		return v, st.Atomic >= 5
	case "C20":
		return t.CheckStats(col, f)
	}
	return "", false
}

func (t *Trial) zeroWeightOverflow() (string, int) {
	if t.Cfg.SizeKind != 2 {
		return "", 0
	}
	n := 0
	for _, e := range t.Events() {
		if e.Atomic && e.Cause == 3 {
			n++
			if e.Key < t.Cfg.Keys && WeightOf(e.Val, t.Cfg.Max) == 0 {
				return fmt.Sprintf("zero-weight value (%d,%d) was evicted with cause Overflow", e.Key, e.Val), n
			}
		}
	}
	return "", n
}

var (
	siteIdx  map[string]int
	siteOnce sync.Once
)

func siteIndex(name string) int {
	siteOnce.Do(func() {
		siteIdx = map[string]int{}
		for i, n := range otter.VerifSiteNames() {
			siteIdx[n] = i
		}
	})
	if i, ok := siteIdx[name]; ok {
		return i
	}
	return 63
}

// CheckStats is the concurrent half of C20.
func (t *Trial) CheckStats(col *core.Collector, f *Final) (string, bool) {
	col.Count("c20.monotonicity_samples", t.statSamples.Load())
	if p := t.statDecrease.Load(); p != nil {
		return *p, true
	}
	s := t.Cache.Stats()
	var lookups, minHits, maxHits uint64
	var loads uint64
	for _, rs := range t.Recs {
		for i := range rs {
			r := &rs[i]
			switch r.Kind {
			case KGetIfPresent, KGetEntry:
				lookups++
				if r.ROk {
					minHits++
					maxHits++
				}
			case KGet:
				lookups++
				if r.LEnter != 0 {
					loads++
				} else {
					// a hit or a waiter (which counted a miss): not distinguishable from outside
					maxHits++
				}
			case KCompute:
				lookups++
				if r.SawOk {
					minHits++
					maxHits++
				}
			case KComputeIfAbsent:
				lookups++
				if r.Invoked == 0 {
					// returned an existing value: a hit, unless it was inserted between the two phases
					maxHits++
				}
			case KComputeIfPresent:
				lookups++
				if r.Invoked == 1 {
					minHits++
					maxHits++
				} else {
					// absent at the first phase (miss) or removed between the phases (hit)
					maxHits++
				}
			}
		}
	}
	col.Count("c20.lookups", int64(lookups))
	col.Count("c20.loads", int64(loads))
	nontrivial := lookups >= 20
	if s.Hits+s.Misses != lookups {
		return fmt.Sprintf("hits+misses = %d+%d but %d key lookups were performed by counting operations", s.Hits, s.Misses, lookups), nontrivial
	}
	if s.Hits < minHits || s.Hits > maxHits {
		return fmt.Sprintf("hits = %d is outside the bounds [%d,%d] given by the operations whose outcome is unambiguous", s.Hits, minHits, maxHits), nontrivial
	}
	if s.LoadSuccesses+s.LoadFailures != loads {
		return fmt.Sprintf("load successes+failures = %d+%d but the loader was invoked %d times", s.LoadSuccesses, s.LoadFailures, loads), nontrivial
	}
	var overflow, overflowW uint64
	for _, e := range t.Events() {
		if e.Atomic && e.Cause == 3 {
			overflow++
			if t.Cfg.SizeKind == 2 {
				overflowW += uint64(WeightOf(e.Val, t.Cfg.Max))
			} else {
				overflowW++
			}
		}
	}
	if s.Evictions != overflow || s.EvictionWeight != overflowW {
		return fmt.Sprintf("evictions = %d (weight %d) but %d Overflow removals (weight %d) were reported in a cache without expiration", s.Evictions, s.EvictionWeight, overflow, overflowW), nontrivial
	}
	return "", nontrivial
}
