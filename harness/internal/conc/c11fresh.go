package conc

import (
	"context"
	"fmt"
	"runtime"
	"sync"
	"sync/atomic"
	"time"

	"github.com/maypok86/otter/v2"

	"otterverif/internal/core"
)

// ---- C11: reads of fresh entries trigger nothing, also while the entries are being rewritten ------
//
// A refresh policy whose deadline lies an hour ahead on a manual clock that does not move: every entry
// is fresh all the time. Writers overwrite the keys over and over (they are never removed), readers use
// the loader-backed reads. No loader function may ever be invoked - neither Load (the keys are present
// throughout) nor Reload (nothing is due) - and after quiescence every key holds a value that a writer
// wrote: a reload that was handed over for a fresh entry would install a loaded value over an explicit
// write.

type freshLoader struct {
	loads, reloads atomic.Int64
}

func (l *freshLoader) Load(ctx context.Context, key int) (int, error) {
	l.loads.Add(1)
	return -1000 - key, nil
}
func (l *freshLoader) Reload(ctx context.Context, key, old int) (int, error) {
	l.reloads.Add(1)
	return -2000 - key, nil
}
func (l *freshLoader) BulkLoad(ctx context.Context, keys []int) (map[int]int, error) {
	l.loads.Add(1)
	m := map[int]int{}
	for _, k := range keys {
		m[k] = -1000 - k
	}
	return m, nil
}
func (l *freshLoader) BulkReload(ctx context.Context, keys, olds []int) (map[int]int, error) {
	l.reloads.Add(1)
	m := map[int]int{}
	for _, k := range keys {
		m[k] = -2000 - k
	}
	return m, nil
}

func runC11Fresh(seed uint64) (violation string, reads int64) {
	r := core.NewRng(seed)
	clk := &phaseClock{tick: make(chan time.Time)}
	clk.now.Store(1_000_000_000)
	var wg sync.WaitGroup
	o := &otter.Options[int, int]{
		Clock:             clk,
		RefreshCalculator: otter.RefreshWriting[int, int](time.Hour),
		Logger:            &otter.NoopLogger{},
		Executor: func(fn func()) {
			wg.Add(1)
			go func() {
				defer wg.Done()
				fn()
			}()
		},
	}
	switch r.Intn(3) { // a policy that retires replaced nodes, or none
	case 0:
		o.MaximumSize = 1000
	case 1:
		o.ExpiryCalculator = otter.ExpiryWriting[int, int](24 * time.Hour)
	}
	c, err := otter.New(o)
	if err != nil {
		return "cannot build: " + err.Error(), 0
	}
	defer c.StopAllGoroutines()
	otter.VerifSetHook(compHook(seed, []int{0, 20, 100}[r.Intn(3)]))
	defer otter.VerifSetHook(nil)
	keys := 1 + r.Intn(4)
	for k := 0; k < keys; k++ {
		c.Set(k, 1)
	}
	ld := &freshLoader{}
	var stop atomic.Bool
	var rd atomic.Int64
	var workers sync.WaitGroup
	writers := 1 + r.Intn(3)
	for w := 0; w < writers; w++ {
		workers.Add(1)
		go func(w int) {
			defer workers.Done()
			rng := core.NewRng(core.Derive(seed, 1, uint64(w)))
			for i := 0; i < 300+rng.Intn(600); i++ {
				c.Set(rng.Intn(keys), (w+1)*1_000_000+i+1)
			}
			stop.Store(true)
		}(w)
	}
	ctx := context.Background()
	for g := 0; g < 1+r.Intn(5); g++ {
		workers.Add(1)
		go func(g int) {
			defer workers.Done()
			rng := core.NewRng(core.Derive(seed, 2, uint64(g)))
			for !stop.Load() {
				if rng.Chance(1, 4) {
					c.BulkGet(ctx, []int{rng.Intn(keys), rng.Intn(keys)}, ld)
				} else {
					c.Get(ctx, rng.Intn(keys), ld)
				}
				rd.Add(1)
				progress.Add(1)
			}
		}(g)
	}
	workers.Wait()
	wg.Wait()
	otter.VerifSetHook(nil)
	if n := ld.reloads.Load(); n > 0 {
		return fmt.Sprintf("every entry is fresh (refresh time one hour ahead, the clock does not move), %d writers overwrite %d keys while readers use Get/BulkGet: Reload/BulkReload was invoked %d times - reads of fresh entries must trigger nothing", writers, keys, n), rd.Load()
	}
	if n := ld.loads.Load(); n > 0 {
		return fmt.Sprintf("the keys are present all the time (only overwritten), but Load/BulkLoad was invoked %d times", n), rd.Load()
	}
	for k := 0; k < keys; k++ {
		if e, ok := c.GetEntryQuietly(k); !ok || e.Value <= 0 {
			return fmt.Sprintf("key %d holds (%d, present=%v) after the writers finished: not a value a writer wrote", k, e.Value, ok), rd.Load()
		}
	}
	return "", rd.Load()
}

// ---- C11: a reloaded value is fresh from the moment it is visible -------------------------------
//
// Entries become due for refresh (the clock is moved once, then stands still), readers use Get/BulkGet,
// the refresh policy gives a reloaded value one hour and takes its time doing so (a slow RefreshAfterReload
// is the control point: it widens whatever window there is between the publication of the reloaded value
// and the moment its refresh time is in place). Every value the loader returns is unique. Reload/BulkReload
// must never be handed a value that a reload produced: such a value is fresh for an hour on a clock that does
// not move, and "reads of fresh entries trigger nothing". At quiescence every key holds a reloaded value
// with its refresh time an hour ahead.
type swapRefresh struct{ seed uint64 }

func (swapRefresh) RefreshAfterCreate(otter.Entry[int, int]) time.Duration      { return 10 }
func (swapRefresh) RefreshAfterUpdate(otter.Entry[int, int], int) time.Duration { return 10 }
func (s swapRefresh) RefreshAfterReload(e otter.Entry[int, int], old int) time.Duration {
	switch h := core.Mix(s.seed ^ uint64(e.Value)); h % 4 {
	case 0:
	case 1:
		for i := 0; i < int(h>>20%6)+1; i++ {
			runtime.Gosched()
		}
	default:
		time.Sleep(time.Duration(h>>20%60+5) * time.Microsecond)
	}
	return time.Hour
}
func (swapRefresh) RefreshAfterReloadFailure(otter.Entry[int, int], error) time.Duration {
	return time.Hour
}

type swapLoader struct {
	next     atomic.Int64
	mu       sync.Mutex
	produced map[int]bool
	bad      string
	reloads  int64
}

func (l *swapLoader) reload(key, old int) int {
	v := int(5_000_000 + l.next.Add(1))
	l.mu.Lock()
	l.reloads++
	if l.produced[old] && l.bad == "" {
		l.bad = fmt.Sprintf("Reload of key %d was handed the value %d, which an earlier reload had produced: its refresh time lies one hour ahead on a clock that does not move, so no read of it may trigger a reload (was it visible before its refresh time was in place?)", key, old)
	}
	l.produced[v] = true
	l.mu.Unlock()
	return v
}
func (l *swapLoader) Load(ctx context.Context, key int) (int, error) { return -1, nil }
func (l *swapLoader) Reload(ctx context.Context, key, old int) (int, error) {
	return l.reload(key, old), nil
}
func (l *swapLoader) BulkLoad(ctx context.Context, keys []int) (map[int]int, error) {
	return map[int]int{}, nil
}
func (l *swapLoader) BulkReload(ctx context.Context, keys, olds []int) (map[int]int, error) {
	m := map[int]int{}
	for i, k := range keys {
		m[k] = l.reload(k, olds[i])
	}
	return m, nil
}

func runC11Swap(seed uint64) (violation string, reloads int64) {
	r := core.NewRng(seed)
	clk := &phaseClock{tick: make(chan time.Time)}
	clk.now.Store(1_000_000_000)
	var wg sync.WaitGroup
	o := &otter.Options[int, int]{
		Clock:             clk,
		RefreshCalculator: swapRefresh{seed},
		Logger:            &otter.NoopLogger{},
		Executor: func(fn func()) {
			wg.Add(1)
			go func() {
				defer wg.Done()
				fn()
			}()
		},
	}
	switch r.Intn(3) {
	case 0:
		o.MaximumSize = 1000
	case 1:
		o.ExpiryCalculator = otter.ExpiryWriting[int, int](24 * time.Hour)
	}
	c, err := otter.New(o)
	if err != nil {
		return "cannot build: " + err.Error(), 0
	}
	defer c.StopAllGoroutines()
	keys := 1 + r.Intn(3)
	for k := 0; k < keys; k++ {
		c.Set(k, 1+k)
	}
	clk.now.Add(20) // every entry is due now; the clock does not move again
	ld := &swapLoader{produced: map[int]bool{}}
	ctx := context.Background()
	var workers sync.WaitGroup
	for g := 0; g < 2+r.Intn(5); g++ {
		workers.Add(1)
		go func(g int) {
			defer workers.Done()
			rng := core.NewRng(core.Derive(seed, 3, uint64(g)))
			for i := 0; i < 150+rng.Intn(300); i++ {
				if rng.Chance(1, 4) {
					c.BulkGet(ctx, []int{rng.Intn(keys), rng.Intn(keys)}, ld)
				} else {
					c.Get(ctx, rng.Intn(keys), ld)
				}
				progress.Add(1)
			}
		}(g)
	}
	workers.Wait()
	wg.Wait()
	ld.mu.Lock()
	defer ld.mu.Unlock()
	if ld.bad != "" {
		return ld.bad, ld.reloads
	}
	for k := 0; k < keys; k++ {
		e, ok := c.GetEntryQuietly(k)
		if !ok || !ld.produced[e.Value] {
			return fmt.Sprintf("key %d was due for refresh and was read hundreds of times, but holds (%d, present=%v) at quiescence: not a reloaded value", k, e.Value, ok), ld.reloads
		}
		if want := clk.now.Load() + int64(time.Hour); e.RefreshableAtNano != want {
			return fmt.Sprintf("key %d holds the reloaded value %d with refresh time %d, expected %d (one hour after the reload on a clock that does not move)", k, e.Value, e.RefreshableAtNano, want), ld.reloads
		}
	}
	return "", ld.reloads
}
