package conc

import (
	"fmt"
	"sort"
	"time"

	"github.com/maypok86/otter/v2"

	"otterverif/internal/core"
)

// Shortened deadlines (C05). One goroutine, manual clock, same-goroutine executor. Entries are written with a long
// lifetime; after a CleanUp (both buffers are empty then) a few of them - fewer than one stripe of the read buffer
// holds, so nothing is dropped - get a much shorter deadline through SetExpiresAfter; CleanUp again (the policies
// hear of it), the clock moves more than a timer tick past the new deadlines, CleanUp. The cache is quiescent and
// maintenance has run: its views must agree - EstimatedSize with the iteration, Hottest/Coldest with the
// iteration, WeightedSize with the weights - and the shortened entries must have been reported as expired. (An
// entry whose timer stayed where its old deadline had put it is still counted and tracked, but no longer there.)
func runC05Shorten(seed uint64) (violation string) {
	r := core.NewRng(seed)
	clk := &phaseClock{tick: make(chan time.Time)}
	clk.now.Store(1_000_000_000 + int64(r.Intn(1<<31)))
	expired := map[int]int{}
	o := &otter.Options[int, int]{
		Clock:    clk,
		Executor: func(fn func()) { fn() },
		OnDeletion: func(e otter.DeletionEvent[int, int]) {
			if e.Cause == otter.CauseExpiration {
				expired[e.Key]++
			}
		},
	}
	long := time.Duration(1+r.Intn(48)) * time.Hour
	switch r.Intn(3) {
	case 0:
		o.ExpiryCalculator = otter.ExpiryWriting[int, int](long)
	case 1:
		o.ExpiryCalculator = otter.ExpiryCreating[int, int](long)
	default:
		o.ExpiryCalculator = otter.ExpiryAccessing[int, int](long)
	}
	n := 4 + r.Intn(60)
	bound := r.Intn(3)
	switch bound {
	case 1:
		o.MaximumSize = n * 2
	case 2:
		o.MaximumWeight = uint64(n * 4)
		o.Weigher = func(k, v int) uint32 { return uint32(1 + k%3) }
	}
	c, err := otter.New(o)
	if err != nil {
		return "cannot build: " + err.Error()
	}
	defer c.StopAllGoroutines()
	for k := 0; k < n; k++ {
		c.Set(k, 100+k)
	}
	c.CleanUp()
	m := min(1+r.Intn(8), n-1)
	short := map[int]time.Duration{}
	var maxShort time.Duration
	for len(short) < m {
		k := r.Intn(n)
		if _, dup := short[k]; dup {
			continue // (at most m <= 8 calls in all: the read buffer's stripe holds 16 events, nothing is dropped)
		}
		d := time.Duration(1+r.Intn(1_000_000)) * time.Duration([]int{1, 1000, 1_000_000}[r.Intn(3)])
		short[k] = d
		if d > maxShort {
			maxShort = d
		}
		c.SetExpiresAfter(k, d)
	}
	c.CleanUp()
	clk.now.Add(int64(maxShort) + 3<<30)
	c.CleanUp()
	var keys []int
	var weight uint64
	for k := range c.All() {
		keys = append(keys, k)
		weight += uint64(1 + k%3)
	}
	sort.Ints(keys)
	desc := fmt.Sprintf("%d entries with a lifetime of %v, %d of them shortened by SetExpiresAfter (to at most %v) between two CleanUps; the clock is %v past the shortened deadlines and CleanUp ran", n, long, m, maxShort, 3*time.Duration(1<<30))
	for k := range short {
		if _, ok := c.GetEntryQuietly(k); ok {
			return fmt.Sprintf("%s: key %d is still visible", desc, k)
		}
	}
	if len(keys) != n-len(short) {
		return fmt.Sprintf("%s: the iteration yields %d entries, expected %d", desc, len(keys), n-len(short))
	}
	if es := c.EstimatedSize(); es != len(keys) {
		return fmt.Sprintf("%s: EstimatedSize() = %d but the iteration yields %d entries (an expired entry is still in the table although maintenance ran a tick after its deadline)", desc, es, len(keys))
	}
	for k := range short {
		if expired[k] != 1 {
			return fmt.Sprintf("%s: key %d was reported as expired %d times, expected once", desc, k, expired[k])
		}
	}
	if bound != 0 {
		var cold, hot []int
		for e := range c.Coldest() {
			cold = append(cold, e.Key)
		}
		for e := range c.Hottest() {
			hot = append(hot, e.Key)
		}
		sort.Ints(cold)
		sort.Ints(hot)
		if fmt.Sprint(cold) != fmt.Sprint(keys) || fmt.Sprint(hot) != fmt.Sprint(keys) {
			return fmt.Sprintf("%s: Coldest yields %d and Hottest %d entries, the iteration %d", desc, len(cold), len(hot), len(keys))
		}
		// (WeightedSize is documented to be 0 without a weighted bound)
		if ws := c.WeightedSize(); bound == 2 && ws != weight {
			return fmt.Sprintf("%s: WeightedSize() = %d, the entries present weigh %d", desc, ws, weight)
		}
	}
	return ""
}

func runC05ShortenAll(col *core.Collector, tier string, seed uint64, shard, nshards int, replayDir string) {
	n := 2000
	if tier == "thorough" {
		n = 100000
	}
	for i := shard; i < n && col.NumViolations() < 5; i += nshards {
		cs := core.Derive(seed, core.StrLabel("C05shorten"), uint64(i))
		v := runC05Shorten(cs)
		col.Eval(1)
		col.NonTrivial(cs)
		col.Count("shortened_deadline_scenarios", 1)
		if v != "" {
			path := writeReplay(replayDir, fmt.Sprintf("C05-shorten-%x.json", cs), map[string]any{"engine": "c05-shorten", "case_seed": cs, "violation": v})
			col.Violation(core.Violation{Property: "C05", Signature: "shorten:" + sigText(v), Detail: v, Replay: path})
		}
	}
}
