package conc

import (
	"context"
	"encoding/json"
	"fmt"
	"os"
	"path/filepath"
	"runtime"
	"sync"
	"sync/atomic"
	"time"

	"github.com/maypok86/otter/v2"

	"otterverif/internal/core"
)

// ---- C10 with the cache's own asynchronous maintenance --------------------------------------------
//
// The statement of C10 does not restrict the executor. Here ONE caller goroutine uses a cache whose
// maintenance runs where the configuration puts it - on the default executor (goroutines started by
// the cache, made countable through VerifSetDefaultExecutor) or on a goroutine-per-task pool - so the
// only concurrency is the cache's own: the sweep of an expired entry, the replay of buffered events,
// a reload handed to the executor. Nobody else touches the key. After the call returned and the
// executor is idle, the outcome must be what C10 says: a successful load is cached, a failed one
// leaves the contents unchanged, a not-found one caches nothing.

const (
	xsAbsent  = iota
	xsExpired // an entry that has expired and was not swept
	xsInvalidated
	numXStates
)

var xStateNames = []string{"absent", "expired, not swept", "invalidated just before"}

type c10xCfg struct {
	Seed    uint64 `json:"seed"`
	State   int    `json:"state"`
	Bulk    bool   `json:"bulk"`
	Outcome int    `json:"outcome"` // 0 value 1 error 2 not found
	Exec    int    `json:"exec"`    // 0 default executor 1 goroutine per task
	Slow    int    `json:"slow"`    // the loader: 0 returns at once, 1 yields a few times, 2 sleeps ~1 ms
	Others  int    `json:"others"`  // other entries (some of them expired as well)
	Refresh bool   `json:"refresh_policy"`
}

func (c c10xCfg) String() string {
	call := "Get"
	if c.Bulk {
		call = "BulkGet"
	}
	return fmt.Sprintf("%s of a key that is %s, loader outcome %d, loader slowness %d, executor %d, %d other entries, refresh policy %v", call, xStateNames[c.State], c.Outcome, c.Slow, c.Exec, c.Others, c.Refresh)
}

var errC10x = fmt.Errorf("loader failed")

func runC10Exec(cfg c10xCfg) (violation, inconclusive string) {
	const k, v0, vL = 1, 1001, 4242
	r := core.NewRng(cfg.Seed)
	clk := &phaseClock{tick: make(chan time.Time)}
	clk.now.Store(int64(1) << 40)
	var wg sync.WaitGroup
	o := &otter.Options[int, int]{
		Clock:            clk,
		ExpiryCalculator: otter.ExpiryWriting[int, int](time.Minute),
		Logger:           &otter.NoopLogger{},
	}
	if cfg.Refresh {
		o.RefreshCalculator = otter.RefreshWriting[int, int](time.Hour)
	}
	track := func(fn func()) {
		wg.Add(1)
		go func() {
			defer wg.Done()
			fn()
		}()
	}
	if cfg.Exec == 1 {
		o.Executor = track
	} else {
		otter.VerifSetDefaultExecutor(track)
		defer otter.VerifSetDefaultExecutor(nil)
	}
	c, err := otter.New(o)
	if err != nil {
		return "", err.Error()
	}
	defer c.StopAllGoroutines()
	for i := 0; i < cfg.Others; i++ {
		c.Set(100+i, i)
	}
	switch cfg.State {
	case xsExpired:
		c.Set(k, v0)
	case xsInvalidated:
		c.Set(k, v0)
	}
	c.CleanUp()
	wg.Wait()
	if cfg.State == xsExpired {
		clk.now.Add(int64(2 * time.Hour)) // everything written so far has expired; nothing has swept it
		for i := 0; i < cfg.Others/2; i++ {
			c.Set(100+i, -i) // some of the other entries are alive again
		}
	}
	if cfg.State == xsInvalidated {
		c.Invalidate(k)
	}
	var invoked atomic.Int32
	slow := func() {
		switch cfg.Slow {
		case 1:
			for i := 0; i < 1+r.Intn(20); i++ {
				runtime.Gosched()
			}
		case 2:
			time.Sleep(time.Duration(200+r.Intn(1500)) * time.Microsecond)
		}
	}
	answer := func() (int, error) {
		invoked.Add(1)
		slow()
		switch cfg.Outcome {
		case 1:
			return 0, errC10x
		case 2:
			return 0, otter.ErrNotFound
		}
		return vL, nil
	}
	ctx := context.Background()
	var gotV int
	var gotOk bool
	var gotErr error
	if cfg.Bulk {
		var m map[int]int
		m, gotErr = c.BulkGet(ctx, []int{k}, otter.BulkLoaderFunc[int, int](func(ctx context.Context, keys []int) (map[int]int, error) {
			v, err := answer()
			if err == otter.ErrNotFound {
				return map[int]int{}, nil // a bulk loader reports not-found by not supplying the key
			}
			if err != nil {
				return nil, err
			}
			res := map[int]int{}
			for _, kk := range keys {
				res[kk] = v
			}
			return res, nil
		}))
		gotV, gotOk = m[k]
	} else {
		gotV, gotErr = c.Get(ctx, k, otter.LoaderFunc[int, int](func(ctx context.Context, key int) (int, error) { return answer() }))
		gotOk = gotErr == nil
	}
	done := make(chan struct{})
	go func() { wg.Wait(); close(done) }()
	select {
	case <-done:
	case <-time.After(60 * time.Second):
		return "", "the executor did not become idle"
	}
	progress.Add(1)
	if invoked.Load() != 1 {
		return fmt.Sprintf("the loader was invoked %d times for one call by the only caller", invoked.Load()), ""
	}
	e, present := c.GetEntryQuietly(k)
	switch cfg.Outcome {
	case 0:
		if gotErr != nil || !gotOk || gotV != vL {
			return fmt.Sprintf("the call returned (%d,%v,%v), the loader supplied %d", gotV, gotOk, gotErr, vL), ""
		}
		if !present || e.Value != vL {
			return fmt.Sprintf("the load succeeded and the call returned %d, nobody else uses the key and the executor is idle, but the value is not cached: GetEntryQuietly = (%d, present=%v)", vL, e.Value, present), ""
		}
	case 1:
		if gotErr == nil {
			return "the loader failed but the call returned no error", ""
		}
		if present {
			return fmt.Sprintf("the load failed but the key now holds %d", e.Value), ""
		}
	case 2:
		if !cfg.Bulk && gotErr == nil {
			return "the loader answered not-found but Get returned no error", ""
		}
		if cfg.Bulk && (gotOk || gotErr != nil) {
			return fmt.Sprintf("the bulk loader did not supply the key but BulkGet returned (%d,%v,%v)", gotV, gotOk, gotErr), ""
		}
		if present {
			return fmt.Sprintf("the loader answered not-found but the key now holds %d", e.Value), ""
		}
	}
	return "", ""
}

// RunC10Exec runs the own-executor scenarios of C10.
func RunC10Exec(col *core.Collector, tier, variant string, seed uint64, shard, nshards int, replayDir string) {
	col.Note("own-executor part: one caller goroutine, maintenance on the default executor or a goroutine-per-task pool (the cache's own concurrency only); after the call returned and the executor is idle the outcome must be the documented one; non-trivial = the key held an expired, not yet swept entry or the loader was slow")
	reps := 3
	if tier == "thorough" {
		reps = 120
	}
	if variant != "plain" {
		reps = max(1, reps/3)
	}
	idx := 0
	for rep := 0; rep < reps; rep++ {
		for st := 0; st < numXStates; st++ {
			for bulk := 0; bulk < 2; bulk++ {
				for oc := 0; oc < 3; oc++ {
					for ex := 0; ex < 2; ex++ {
						for sl := 0; sl < 3; sl++ {
							idx++
							if idx%nshards != shard {
								continue
							}
							cfg := c10xCfg{Seed: core.Derive(seed, core.StrLabel("C10exec"), uint64(idx)), State: st, Bulk: bulk == 1, Outcome: oc, Exec: ex, Slow: sl, Others: (rep * 3) % 7, Refresh: rep%2 == 1}
							v, inc := runC10Exec(cfg)
							col.Eval(1)
							col.Count("own_executor.scenarios", 1)
							if inc != "" {
								col.Count("own_executor.inconclusive", 1)
								continue
							}
							if st == xsExpired || sl > 0 {
								col.NonTrivial(core.HashJSON(cfg))
							}
							if v != "" {
								path := filepath.Join(replayDir, fmt.Sprintf("C10-exec-%x.json", core.HashJSON(cfg)))
								data, _ := json.MarshalIndent(map[string]any{"engine": "c10-exec", "scenario": cfg, "readable": cfg.String(), "violation": v}, "", " ")
								os.WriteFile(path, data, 0o644)
								col.Violation(core.Violation{Property: "C10", Signature: "c10-exec:" + sigText(xStateNames[st]+" "+v), Detail: cfg.String() + ": " + v, Replay: path})
								if col.NumViolations() >= 8 {
									return
								}
							}
						}
					}
				}
			}
		}
	}
}
