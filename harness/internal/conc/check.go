package conc

import (
	"fmt"
	"sort"

	"github.com/maypok86/otter/v2"
)

// Final is what the cache shows at quiescence.
type Final struct {
	Entries       map[int]otter.Entry[int, int] // GetEntryQuietly per key yielded by All
	AllKV         [][2]int
	Hottest       []otter.Entry[int, int]
	Coldest       []otter.Entry[int, int]
	WeightedSize  uint64
	EstimatedSize int
	Maximum       uint64
	Snap          *otter.VerifSnapshot[int, int]
}

// Gather reads the quiescent state through the public API and the audit hook.
func (t *Trial) Gather() *Final {
	c := t.Cache
	f := &Final{Entries: map[int]otter.Entry[int, int]{}}
	for k, v := range c.All() {
		f.AllKV = append(f.AllKV, [2]int{k, v})
		if e, ok := c.GetEntryQuietly(k); ok {
			f.Entries[k] = e
		}
	}
	f.Maximum = c.GetMaximum()
	f.WeightedSize = c.WeightedSize()
	f.EstimatedSize = c.EstimatedSize()
	if t.Cfg.SizeKind != 0 {
		for e := range c.Hottest() {
			f.Hottest = append(f.Hottest, e)
		}
		for e := range c.Coldest() {
			f.Coldest = append(f.Coldest, e)
		}
	}
	f.Snap = c.VerifAudit()
	return f
}

// Finals returns the final per-key read results for the linearizability check.
func (t *Trial) Finals(f *Final) map[int]linOut {
	out := map[int]linOut{}
	for k := 0; k < t.Cfg.Keys; k++ {
		if e, ok := f.Entries[k]; ok {
			out[k] = linOut{RV: e.Value, ROk: true}
		} else {
			out[k] = linOut{}
		}
	}
	return out
}

// ---- C06: exactly once, conservation, causes, order ------------------------------------------

type EventStats struct {
	Atomic     int
	Deletions  int
	ByCause    [5]int
	Certain    int
	Maybe      int
	ChainPairs int
	Racing     int // replacement and automatic removal of the same key within one trial
}

func (t *Trial) CheckEvents(f *Final) (violation string, st EventStats) {
	cfg := &t.Cfg
	type kv struct{ k, v int }
	certain := map[kv]bool{}
	maybe := map[kv]bool{}
	type seen struct {
		cause int // expected cause of the event of this (old) value
		by    string
		next  int // value installed by the observer (0 none)
	}
	sawOld := map[kv][]seen{}
	var invalidateAlls [][2]int64
	for _, rs := range t.Recs {
		for i := range rs {
			r := &rs[i]
			if r.Kind == KInvalidateAll {
				invalidateAlls = append(invalidateAlls, [2]int64{r.Call, r.Ret})
			}
			if r.Key >= cfg.Keys {
				continue
			}
			switch r.Kind {
			case KSet:
				certain[kv{r.Key, r.Arg}] = true
				if !r.ROk {
					sawOld[kv{r.Key, r.RV}] = append(sawOld[kv{r.Key, r.RV}], seen{2, "Set", r.Arg})
				}
			case KSetIfAbsent:
				if r.ROk {
					certain[kv{r.Key, r.Arg}] = true
				}
			case KCompute, KComputeIfPresent:
				if r.Invoked == 1 {
					switch r.Dec {
					case DecWrite:
						certain[kv{r.Key, r.Arg}] = true
						if r.SawOk {
							sawOld[kv{r.Key, r.SawOld}] = append(sawOld[kv{r.Key, r.SawOld}], seen{2, KindNames[r.Kind], r.Arg})
						}
					case DecInvalidate:
						if r.SawOk {
							sawOld[kv{r.Key, r.SawOld}] = append(sawOld[kv{r.Key, r.SawOld}], seen{1, KindNames[r.Kind], 0})
						}
					}
				}
			case KComputeIfAbsent:
				if r.Invoked == 1 && r.Dec == DecWrite {
					certain[kv{r.Key, r.Arg}] = true
				}
			case KInvalidate:
				if r.ROk {
					sawOld[kv{r.Key, r.RV}] = append(sawOld[kv{r.Key, r.RV}], seen{1, "Invalidate", 0})
				}
			case KGet:
				if r.LEnter != 0 && !r.LNF {
					maybe[kv{r.Key, r.LVal}] = true
				}
			}
		}
	}
	st.Certain, st.Maybe = len(certain), len(maybe)
	evs := t.Events()
	atomicAt := map[kv]Ev{}
	delAt := map[kv]Ev{}
	hasLoads := len(maybe) > 0
	for _, e := range evs {
		if e.Key >= cfg.Keys {
			continue
		}
		p := kv{e.Key, e.Val}
		if e.Atomic {
			st.Atomic++
			if e.Cause >= 1 && e.Cause <= 4 {
				st.ByCause[e.Cause]++
			}
			if !certain[p] && !maybe[p] {
				return fmt.Sprintf("OnAtomicDeletion reported (%d,%d,%s) but that value was never written to the key", e.Key, e.Val, otter.DeletionCause(e.Cause)), st
			}
			if prev, dup := atomicAt[p]; dup {
				return fmt.Sprintf("OnAtomicDeletion reported (%d,%d) twice (causes %s and %s)", e.Key, e.Val, otter.DeletionCause(prev.Cause), otter.DeletionCause(e.Cause)), st
			}
			atomicAt[p] = e
		} else {
			st.Deletions++
			if prev, dup := delAt[p]; dup {
				return fmt.Sprintf("OnDeletion reported (%d,%d) twice (causes %s and %s)", e.Key, e.Val, otter.DeletionCause(prev.Cause), otter.DeletionCause(e.Cause)), st
			}
			delAt[p] = e
		}
	}
	for p, a := range atomicAt {
		d, ok := delAt[p]
		if !ok {
			return fmt.Sprintf("value (%d,%d) was reported to OnAtomicDeletion (%s) but never to OnDeletion", p.k, p.v, otter.DeletionCause(a.Cause)), st
		}
		if d.Cause != a.Cause {
			return fmt.Sprintf("value (%d,%d): OnAtomicDeletion says %s, OnDeletion says %s", p.k, p.v, otter.DeletionCause(a.Cause), otter.DeletionCause(d.Cause)), st
		}
	}
	for p, d := range delAt {
		if _, ok := atomicAt[p]; !ok {
			return fmt.Sprintf("value (%d,%d) was reported to OnDeletion (%s) but never to OnAtomicDeletion", p.k, p.v, otter.DeletionCause(d.Cause)), st
		}
	}
	present := map[kv]bool{}
	for k, e := range f.Entries {
		if k < cfg.Keys {
			present[kv{k, e.Value}] = true
		}
	}
	for p := range certain {
		_, rep := atomicAt[p]
		switch {
		case present[p] && rep:
			return fmt.Sprintf("value (%d,%d) is still present but was reported as removed (%s)", p.k, p.v, otter.DeletionCause(atomicAt[p].Cause)), st
		case !present[p] && !rep:
			return fmt.Sprintf("value (%d,%d) was written, is not present at quiescence and was never reported to the deletion handlers", p.k, p.v), st
		}
	}
	for p := range maybe {
		if _, rep := atomicAt[p]; rep && present[p] {
			return fmt.Sprintf("loaded value (%d,%d) is still present but was reported as removed", p.k, p.v), st
		}
	}
	for p := range present {
		if !certain[p] && !maybe[p] {
			return fmt.Sprintf("value (%d,%d) is present but was never written", p.k, p.v), st
		}
	}
	// causes
	inInvalidateAll := func(ts int64) bool {
		for _, iv := range invalidateAlls {
			if iv[0] <= ts && ts <= iv[1] {
				return true
			}
		}
		return false
	}
	perKeyAuto := map[int]bool{}
	perKeyRepl := map[int]bool{}
	for p, a := range atomicAt {
		obs := sawOld[p]
		switch a.Cause {
		case 2, 1: // Replacement, Invalidation
			if len(obs) > 1 {
				return fmt.Sprintf("value (%d,%d) was seen as the replaced/invalidated value by %d operations", p.k, p.v, len(obs)), st
			}
			if len(obs) == 1 {
				if obs[0].cause != a.Cause {
					return fmt.Sprintf("value (%d,%d) was removed by %s but reported with cause %s", p.k, p.v, obs[0].by, otter.DeletionCause(a.Cause)), st
				}
			} else {
				// nobody returned it as the old value: only a finished load (which returns nothing about
				// what it replaced), a not-found reload or InvalidateAll may have removed it
				nf, late := false, ""
				if a.Cause == 1 {
					nf, late = t.nfRemoval(a)
				}
				switch {
				case a.Cause == 2 && hasLoads:
				case a.Cause == 1 && inInvalidateAll(a.T):
				case nf:
				case late != "":
					return late, st
				default:
					return fmt.Sprintf("value (%d,%d) was reported with cause %s but no operation replaced or invalidated it", p.k, p.v, otter.DeletionCause(a.Cause)), st
				}
			}
			perKeyRepl[p.k] = true
		case 3:
			if cfg.SizeKind == 0 {
				return fmt.Sprintf("value (%d,%d) reported with cause Overflow in a cache without a size bound", p.k, p.v), st
			}
			if cfg.SizeKind == 2 && WeightOf(p.v, cfg.Max) == 0 {
				return fmt.Sprintf("zero-weight value (%d,%d) reported with cause Overflow", p.k, p.v), st
			}
			if len(obs) > 0 {
				return fmt.Sprintf("value (%d,%d) was returned as the old value by %s but reported with cause Overflow", p.k, p.v, obs[0].by), st
			}
			perKeyAuto[p.k] = true
		case 4:
			return fmt.Sprintf("value (%d,%d) reported with cause Expiration in a cache without expiration", p.k, p.v), st
		default:
			return fmt.Sprintf("value (%d,%d) reported with unknown cause %d", p.k, p.v, a.Cause), st
		}
	}
	for k := range perKeyAuto {
		if perKeyRepl[k] {
			st.Racing++
		}
	}
	// an operation that returned x as the value it replaced/invalidated: x's event exists (conservation
	// covers written values; this also covers loaded ones)
	for p, obs := range sawOld {
		if _, ok := atomicAt[p]; !ok {
			return fmt.Sprintf("%s removed value (%d,%d) but the handlers never saw it", obs[0].by, p.k, p.v), st
		}
	}
	// per-key order of the atomic handler follows the install chain
	for p, obs := range sawOld {
		for _, o := range obs {
			if o.next == 0 {
				continue
			}
			if nxt, ok := atomicAt[kv{p.k, o.next}]; ok {
				st.ChainPairs++
				if cur := atomicAt[p]; cur.Seq > nxt.Seq {
					return fmt.Sprintf("key %d: value %d replaced value %d, but OnAtomicDeletion saw %d (seq %d) before %d (seq %d)", p.k, o.next, p.v, o.next, nxt.Seq, p.v, cur.Seq), st
				}
			}
		}
	}
	return "", st
}

// nfRemoval decides whether the atomic Invalidation event e, which no Invalidate / Compute returned as
// its old value, is the removal a finished not-found load performs ("the mapping is removed"). It is if
// the event falls between the loader's return and the return of such a Get for the key. A load is
// superseded by any write that begins after its loader was entered (the load is registered by then):
// removing a value written that late is a violation. Returns (explained, violation).
func (t *Trial) nfRemoval(e Ev) (bool, string) {
	var wcall int64 = -1
	explained := false
	late := ""
	for _, rs := range t.Recs {
		for i := range rs {
			r := &rs[i]
			if r.Key != e.Key {
				continue
			}
			switch r.Kind {
			case KSet:
				if r.Arg == e.Val {
					wcall = r.Call
				}
			case KSetIfAbsent:
				if r.Arg == e.Val && r.ROk {
					wcall = r.Call
				}
			case KCompute, KComputeIfPresent, KComputeIfAbsent:
				if r.Arg == e.Val && r.Dec == DecWrite && r.Invoked > 0 {
					wcall = r.Call
				}
			}
		}
	}
	for _, rs := range t.Recs {
		for i := range rs {
			r := &rs[i]
			if r.Kind != KGet || !r.LNF || r.Key != e.Key || !(r.LExit <= e.T && e.T <= r.Ret) {
				continue
			}
			if wcall >= 0 && wcall > r.LEnter {
				late = fmt.Sprintf("value (%d,%d), written by a call that began at %d, was removed at %d by the not-found result of a load whose loader had been entered at %d: that write superseded the load", e.Key, e.Val, wcall, e.T, r.LEnter)
				continue
			}
			explained = true
		}
	}
	if explained {
		return true, ""
	}
	return false, late
}

// ---- C04 / C05: quiescent views -------------------------------------------------------------------

func (t *Trial) weightOfEntry(e otter.Entry[int, int]) uint64 { return uint64(e.Weight) }

// CheckBound is the black-box half of C04.
func (t *Trial) CheckBound(f *Final) string {
	if t.Cfg.SizeKind == 0 {
		return ""
	}
	var total uint64
	for k, e := range f.Entries {
		total += uint64(e.Weight)
		if uint64(e.Weight) > f.Maximum {
			return fmt.Sprintf("key %d with weight %d is retained although the maximum is %d", k, e.Weight, f.Maximum)
		}
	}
	if total > f.Maximum {
		return fmt.Sprintf("after all calls returned and one CleanUp the entries present weigh %d, the maximum is %d (%d entries)", total, f.Maximum, len(f.Entries))
	}
	if f.Snap.WithEviction && f.Snap.WeightedSize > f.Snap.Maximum {
		return fmt.Sprintf("policy weightedSize %d exceeds the maximum %d at quiescence", f.Snap.WeightedSize, f.Snap.Maximum)
	}
	return ""
}

// CheckViews is the black-box half of C05.
func (t *Trial) CheckViews(f *Final) string {
	var total uint64
	for _, e := range f.Entries {
		total += uint64(e.Weight)
	}
	// WeightedSize and EstimatedSize count entries that expired and were not swept yet, the iterators skip them:
	// with such nodes in the table the reference is the table itself.
	expired := 0
	var tableTotal uint64
	if t.Clock != nil {
		now := t.Clock.now.Load()
		for _, n := range f.Snap.Table {
			tableTotal += uint64(n.Weight)
			if n.ExpiresAt <= now {
				expired++
			}
		}
	}
	if expired > 0 {
		total = tableTotal
	}
	if t.Cfg.SizeKind == 2 && f.WeightedSize != total {
		return fmt.Sprintf("WeightedSize()=%d but the entries present weigh %d (%d of them expired and unswept)", f.WeightedSize, total, expired)
	}
	if expired == 0 && f.EstimatedSize != len(f.AllKV) {
		return fmt.Sprintf("EstimatedSize()=%d but iteration yields %d entries", f.EstimatedSize, len(f.AllKV))
	}
	seen := map[int]bool{}
	for _, p := range f.AllKV {
		if seen[p[0]] {
			return fmt.Sprintf("All() yielded key %d twice", p[0])
		}
		seen[p[0]] = true
	}
	if t.Cfg.SizeKind != 0 {
		for name, list := range map[string][]otter.Entry[int, int]{"Hottest": f.Hottest, "Coldest": f.Coldest} {
			s := map[int]bool{}
			for _, e := range list {
				if s[e.Key] {
					return fmt.Sprintf("%s() yielded key %d twice", name, e.Key)
				}
				s[e.Key] = true
				if cur, ok := f.Entries[e.Key]; !ok || cur.Value != e.Value {
					return fmt.Sprintf("%s() yielded (%d,%d) which is not present", name, e.Key, e.Value)
				}
			}
			for k := range f.Entries {
				if !s[k] {
					return fmt.Sprintf("key %d is present but %s() does not enumerate it (unknown to the eviction policy)", k, name)
				}
			}
		}
	}
	return ""
}

// CheckAudit is the white-box half: the structural invariants of the policy state at quiescence.
func (t *Trial) CheckAudit(s *otter.VerifSnapshot[int, int], afterMaintenance bool) string {
	if s.DrainStatus != 0 {
		return fmt.Sprintf("drain status is %d (not idle) at quiescence", s.DrainStatus)
	}
	if s.WriteBufferSize != 0 {
		return fmt.Sprintf("%d write events are still in the write buffer at quiescence", s.WriteBufferSize)
	}
	if s.Calls != 0 {
		return fmt.Sprintf("%d in-flight load records are left at quiescence", s.Calls)
	}
	table := map[uintptr]otter.VerifNodeInfo[int, int]{}
	keys := map[int]bool{}
	for _, n := range s.Table {
		if n.State != 0 {
			return fmt.Sprintf("table node (%d,%d) is not alive (state %d)", n.Key, n.Value, n.State)
		}
		if keys[n.Key] {
			return fmt.Sprintf("key %d is in the table twice", n.Key)
		}
		keys[n.Key] = true
		table[n.Ptr] = n
	}
	if s.TableStats.Size != len(s.Table) {
		return fmt.Sprintf("table size counter %d but %d nodes are reachable", s.TableStats.Size, len(s.Table))
	}
	if s.WithEviction {
		if s.DequeCorrupt != "" {
			return "deque corrupt: " + s.DequeCorrupt
		}
		linked := map[uintptr]int{}
		check := func(name string, q uint8, nodes []otter.VerifNodeInfo[int, int], lenField int) (uint64, string) {
			var sum uint64
			if len(nodes) != lenField {
				return 0, fmt.Sprintf("%s deque: len field %d but %d nodes are linked", name, lenField, len(nodes))
			}
			for _, n := range nodes {
				if n.State != 0 {
					return 0, fmt.Sprintf("%s deque links node (%d,%d) which is not alive (state %d)", name, n.Key, n.Value, n.State)
				}
				if _, ok := table[n.Ptr]; !ok {
					return 0, fmt.Sprintf("%s deque links node (%d,%d) which is not in the table", name, n.Key, n.Value)
				}
				if n.Queue != q {
					return 0, fmt.Sprintf("%s deque links node (%d,%d) whose queue flag is %d", name, n.Key, n.Value, n.Queue)
				}
				linked[n.Ptr]++
				sum += uint64(n.Weight)
			}
			return sum, ""
		}
		w, msg := check("window", 0, s.Window, s.WindowLen)
		if msg != "" {
			return msg
		}
		pb, msg := check("probation", 1, s.Probation, s.ProbationLen)
		if msg != "" {
			return msg
		}
		pt, msg := check("protected", 2, s.Protected, s.ProtectedLen)
		if msg != "" {
			return msg
		}
		for ptr, n := range table {
			switch linked[ptr] {
			case 1:
			case 0:
				return fmt.Sprintf("table node (%d,%d) is in no eviction queue: present but unknown to the eviction policy", n.Key, n.Value)
			default:
				return fmt.Sprintf("table node (%d,%d) is linked %d times", n.Key, n.Value, linked[ptr])
			}
		}
		if w != s.WindowWeightedSize {
			return fmt.Sprintf("window weights sum to %d but windowWeightedSize is %d", w, s.WindowWeightedSize)
		}
		if pt != s.MainProtectedWeightedSize {
			return fmt.Sprintf("protected weights sum to %d but mainProtectedWeightedSize is %d", pt, s.MainProtectedWeightedSize)
		}
		if w+pb+pt != s.WeightedSize {
			return fmt.Sprintf("queue weights sum to %d but weightedSize is %d", w+pb+pt, s.WeightedSize)
		}
		if afterMaintenance && s.WeightedSize > s.Maximum {
			return fmt.Sprintf("weightedSize %d exceeds the maximum %d", s.WeightedSize, s.Maximum)
		}
	}
	if s.WithExpiration {
		if s.WheelCorrupt {
			return "timer wheel list corrupt"
		}
		inWheel := map[uintptr]int{}
		for _, n := range s.Wheel {
			inWheel[n.Ptr]++
			if _, ok := table[n.Ptr]; !ok {
				return fmt.Sprintf("timer wheel links node (%d,%d) which is not in the table", n.Key, n.Value)
			}
		}
		for ptr, n := range table {
			if inWheel[ptr] != 1 {
				return fmt.Sprintf("table node (%d,%d) is linked %d times in the timer wheel", n.Key, n.Value, inWheel[ptr])
			}
		}
	}
	return ""
}

// HistoryExcerpt renders the calls that touched key k for a witness.
func (t *Trial) HistoryExcerpt(k int, limit int) []string {
	var rs []Rec
	for _, w := range t.Recs {
		for _, r := range w {
			if r.Key == k && r.Kind < KInvalidateAll {
				rs = append(rs, r)
			}
		}
	}
	sort.Slice(rs, func(i, j int) bool { return rs[i].Call < rs[j].Call })
	var out []string
	for _, r := range rs {
		if len(out) >= limit {
			break
		}
		out = append(out, fmt.Sprintf("[%d,%d] w%d %s(k=%d arg=%d dec=%d) -> (%d,%v) invoked=%d saw=(%d,%v)", r.Call, r.Ret, r.W, KindNames[r.Kind], r.Key, r.Arg, r.Dec, r.RV, r.ROk, r.Invoked, r.SawOld, r.SawOk))
	}
	return out
}
