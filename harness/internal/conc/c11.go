package conc

import (
	"context"
	"errors"
	"fmt"
	"runtime"
	"sync"
	"sync/atomic"
	"time"

	"github.com/maypok86/otter/v2"

	"otterverif/internal/core"
)

// ---- C11, concurrent half: readers during a reload, refresh messages, swap-or-nothing ----------

type c11Cfg struct {
	Seed      uint64 `json:"seed"`
	Index     int    `json:"index"`
	Scenario  int    `json:"scenario"` // 0 Get-triggered reload, 1 two manual refreshes, 2 bulk refresh, 3-5 a second explicit (bulk) refresh joins the in-flight reload
	Outcome   int    `json:"outcome"`  // loValue loError loNotFound
	Readers   int    `json:"readers"`
	DelayPerM int    `json:"delay_per_mille"`
	Sync      bool   `json:"sync_executor"`
}

type gateLoader struct {
	entered chan struct{}
	release chan struct{}
	out     int
	val     int
	calls   atomic.Int32
	olds    []int
	mu      sync.Mutex
}

func (g *gateLoader) run(old int) (int, error) {
	n := g.calls.Add(1)
	g.mu.Lock()
	g.olds = append(g.olds, old)
	g.mu.Unlock()
	if n == 1 {
		g.entered <- struct{}{}
		<-g.release
	}
	switch g.out {
	case loValue:
		return g.val, nil
	case loError:
		return 0, errLoaderFailed
	default:
		return 0, otter.ErrNotFound
	}
}

func (g *gateLoader) Load(ctx context.Context, key int) (int, error)        { return g.run(-1) }
func (g *gateLoader) Reload(ctx context.Context, key, old int) (int, error) { return g.run(old) }
func (g *gateLoader) BulkLoad(ctx context.Context, keys []int) (map[int]int, error) {
	v, err := g.run(-1)
	if errors.Is(err, otter.ErrNotFound) {
		return map[int]int{}, nil // a bulk loader reports not-found by not supplying the key
	}
	if err != nil {
		return nil, err
	}
	m := map[int]int{}
	for _, k := range keys {
		m[k] = v
	}
	return m, nil
}

func (g *gateLoader) BulkReload(ctx context.Context, keys, olds []int) (map[int]int, error) {
	v, err := g.run(olds[0])
	if errors.Is(err, otter.ErrNotFound) {
		return map[int]int{}, nil
	}
	if err != nil {
		return nil, err
	}
	m := map[int]int{}
	for _, k := range keys {
		m[k] = v
	}
	return m, nil
}

// tracker counts running executor tasks. Unlike sync.WaitGroup it may be waited on while other
// goroutines still submit tasks.
type tracker struct{ n atomic.Int64 }

func (t *tracker) Add(d int) { t.n.Add(int64(d)) }
func (t *tracker) Done()     { t.n.Add(-1) }
func (t *tracker) Wait() {
	for t.n.Load() != 0 {
		time.Sleep(20 * time.Microsecond)
	}
}

func runC11(cfg c11Cfg) (violation, inconclusive string, readsDuring int) {
	const k, v0, vN = 3, 1000, 2000
	var wg tracker
	o := &otter.Options[int, int]{
		RefreshCalculator: otter.RefreshWriting[int, int](time.Nanosecond),
		ExpiryCalculator:  otter.ExpiryWriting[int, int](time.Hour),
		Logger:            &otter.NoopLogger{},
	}
	if cfg.Sync {
		o.Executor = func(fn func()) { fn() }
	} else {
		o.Executor = func(fn func()) {
			wg.Add(1)
			go func() {
				defer wg.Done()
				fn()
			}()
		}
	}
	c, err := otter.New(o)
	if err != nil {
		return "", err.Error(), 0
	}
	defer c.StopAllGoroutines()
	otter.VerifSetHook(compHook(cfg.Seed, cfg.DelayPerM))
	defer otter.VerifSetHook(nil)
	c.Set(k, v0)
	time.Sleep(2 * time.Microsecond)
	before, _ := c.GetEntryQuietly(k)
	g := &gateLoader{entered: make(chan struct{}, 1), release: make(chan struct{}), out: cfg.Outcome, val: vN}
	ctx := context.Background()

	// afterMessage is what must hold for the receiver of a refresh result, right when it has it
	afterMessage := func(who string, r otter.RefreshResult[int, int]) string {
		switch cfg.Outcome {
		case loValue:
			if r.Err != nil || r.Value != vN {
				return fmt.Sprintf("%s received %+v, the reload returned %d", who, r, vN)
			}
			if v, ok := c.GetIfPresent(k); !ok || v != vN {
				return fmt.Sprintf("%s received the result of the successful reload (%d) but a read right after still returns (%d,%v): the value was not swapped when the result was delivered", who, vN, v, ok)
			}
		case loError:
			if !errors.Is(r.Err, errLoaderFailed) {
				return fmt.Sprintf("%s received error %v for a failed reload", who, r.Err)
			}
			if v, ok := c.GetIfPresent(k); !ok || v != v0 {
				return fmt.Sprintf("after a failed reload the key holds (%d,%v) instead of the old value %d", v, ok, v0)
			}
		case loNotFound:
			if !errors.Is(r.Err, otter.ErrNotFound) {
				return fmt.Sprintf("%s received error %v for a not-found reload", who, r.Err)
			}
			if v, ok := c.GetIfPresent(k); ok {
				return fmt.Sprintf("%s received the not-found result but the key still holds %d", who, v)
			}
		}
		return ""
	}

	var vmu sync.Mutex
	fail := func(s string) {
		vmu.Lock()
		if violation == "" && s != "" {
			violation = s
		}
		vmu.Unlock()
	}
	var calls sync.WaitGroup
	// idle is closed once every refresh has been issued, the loader was released and the executor
	// has no task left: by then every message must have been delivered (no wall-clock deadline)
	var issued sync.WaitGroup
	released := make(chan struct{})
	idle := make(chan struct{})
	switch cfg.Scenario {
	case 1, 3, 4, 5:
		issued.Add(2)
	case 2:
		issued.Add(1)
	}
	go func() {
		issued.Wait()
		<-released
		wg.Wait()
		close(idle)
	}()
	doRefresh := func(i int) {
		defer calls.Done()
		ch := c.Refresh(ctx, k, g)
		issued.Done()
		if ch == nil {
			fail("Refresh returned a nil channel although refreshing is configured")
			return
		}
		who := fmt.Sprintf("Refresh caller %d", i)
		select {
		case r := <-ch:
			fail(afterMessage(who, r))
		case <-idle:
			select {
			case r := <-ch:
				fail(afterMessage(who, r))
			default:
				fail(who + " received no message although every executor task has finished")
				return
			}
		}
		<-idle
		select {
		case r := <-ch:
			fail(fmt.Sprintf("%s received a second message %+v", who, r))
		default:
		}
	}
	doBulk := func(who string) {
		defer calls.Done()
		ch := c.BulkRefresh(ctx, []int{k}, g)
		issued.Done()
		if ch == nil {
			fail("BulkRefresh returned a nil channel although refreshing is configured")
			return
		}
		handle := func(rs []otter.RefreshResult[int, int]) {
			if len(rs) != 1 {
				fail(fmt.Sprintf("BulkRefresh delivered %d results for one key", len(rs)))
				return
			}
			fail(afterMessage(who, rs[0]))
		}
		select {
		case rs := <-ch:
			handle(rs)
		case <-idle:
			select {
			case rs := <-ch:
				handle(rs)
			default:
				fail(who + " received no message although every executor task has finished")
				return
			}
		}
		<-idle
		select {
		case rs := <-ch:
			fail(fmt.Sprintf("%s received a second message %+v", who, rs))
		default:
		}
	}
	// scenarios 3-5: a second explicit refresh arrives while the reload of the first is in flight, so
	// every key it asks for is already being loaded by another call
	var late func()
	switch cfg.Scenario {
	case 0:
		calls.Add(1)
		go func() {
			defer calls.Done()
			v, err := c.Get(ctx, k, g)
			if err != nil || v != v0 {
				fail(fmt.Sprintf("Get of a stale entry returned (%d,%v), the value cached at that moment was %d", v, err, v0))
			}
		}()
	case 1:
		for i := 0; i < 2; i++ {
			calls.Add(1)
			go doRefresh(i)
		}
	case 3:
		calls.Add(2)
		go doBulk("the first BulkRefresh caller")
		late = func() { doBulk("the BulkRefresh caller that joined the in-flight reload") }
	case 4:
		calls.Add(2)
		go doRefresh(0)
		late = func() { doBulk("the BulkRefresh caller that joined the in-flight reload") }
	case 5:
		calls.Add(2)
		go doBulk("the first BulkRefresh caller")
		late = func() { doRefresh(1) }
	default:
		calls.Add(1)
		go doBulk("the BulkRefresh caller")
	}
	select {
	case <-g.entered:
	case <-time.After(60 * time.Second):
		close(g.release)
		close(released)
		return "", "the reload was never started", 0
	}
	lateStarted := make(chan struct{})
	if late != nil {
		go func() {
			close(lateStarted)
			late()
		}()
	} else {
		close(lateStarted)
	}
	// while the reload is in flight every reader keeps getting the old value
	var rwg sync.WaitGroup
	var rd atomic.Int64
	for i := 0; i < cfg.Readers; i++ {
		rwg.Add(1)
		go func(i int) {
			defer rwg.Done()
			for j := 0; j < 20; j++ {
				var v int
				var ok bool
				switch (i + j) % 3 {
				case 0:
					v, ok = c.GetIfPresent(k)
				case 1:
					var e otter.Entry[int, int]
					e, ok = c.GetEntry(k)
					v = e.Value
				default:
					var err error
					v, err = c.Get(ctx, k, g)
					ok = err == nil
				}
				rd.Add(1)
				if !ok || v != v0 {
					fail(fmt.Sprintf("a read during the in-flight reload returned (%d,%v), the old value is %d", v, ok, v0))
					return
				}
				runtime.Gosched()
			}
		}(i)
	}
	rwg.Wait()
	<-lateStarted
	if late != nil {
		// give the late refresh a moment to register on the in-flight calls (workload shaping only:
		// if it arrives after the release it simply is a refresh of its own)
		time.Sleep(time.Duration(100+cfg.Seed%400) * time.Microsecond)
	}
	close(g.release)
	close(released)
	calls.Wait()
	wg.Wait()
	progress.Add(1)
	if violation != "" {
		return violation, "", int(rd.Load())
	}
	after, ok := c.GetEntryQuietly(k)
	switch cfg.Outcome {
	case loValue:
		if !ok || after.Value != vN {
			return fmt.Sprintf("after the successful reload the key holds (%d,%v), expected %d", after.Value, ok, vN), "", int(rd.Load())
		}
	case loError:
		if !ok || after.Value != v0 || after.ExpiresAtNano != before.ExpiresAtNano {
			return fmt.Sprintf("a failed reload must leave the entry and its expiry untouched: before %+v, after %+v (present %v)", before, after, ok), "", int(rd.Load())
		}
	case loNotFound:
		if ok {
			return fmt.Sprintf("a not-found reload must remove the entry, it still holds %d", after.Value), "", int(rd.Load())
		}
	}
	g.mu.Lock()
	defer g.mu.Unlock()
	if g.olds[0] != v0 {
		return fmt.Sprintf("Reload was given old value %d, the cached value was %d", g.olds[0], v0), "", int(rd.Load())
	}
	return "", "", int(rd.Load())
}

// RunC11 runs the concurrent refresh scenarios.
func RunC11(col *core.Collector, tier, variant string, seed uint64, shard, nshards int, replayDir, outBase string) {
	col.Note("rule: concurrent part: a gated loader keeps a reload in flight while readers read (they must keep getting the old value); Get-triggered reloads, two concurrent manual Refresh calls and BulkRefresh, outcomes success / failure / not-found; whoever receives a refresh result must find the outcome applied; non-trivial = at least 5 reads were served while the reload was in flight; distinct = scenario parameters")
	n := 2400
	if tier == "thorough" {
		n = 60000
	}
	if variant != "plain" {
		n /= 3
	}
	fresh := 40
	if tier == "thorough" {
		fresh = 1500
	}
	for i := shard; i < fresh; i += nshards {
		cs := core.Derive(seed, core.StrLabel("C11fresh"), core.StrLabel(variant), uint64(i))
		v, reads := runC11Fresh(cs)
		col.Eval(1)
		col.Count("c11.fresh.reads_next_to_writers", reads)
		if reads > 100 {
			col.NonTrivial(cs)
		}
		if v != "" {
			path := writeReplay(replayDir, fmt.Sprintf("C11-fresh-%x.json", cs), map[string]any{"engine": "c11-fresh", "case_seed": cs, "violation": v})
			col.Violation(core.Violation{Property: "C11", Signature: "c11-fresh:" + sigText(v), Detail: v, Replay: path})
			break
		}
	}
	for i := shard; i < fresh*4; i += nshards {
		cs := core.Derive(seed, core.StrLabel("C11swap"), core.StrLabel(variant), uint64(i))
		v, reloads := runC11Swap(cs)
		col.Eval(1)
		col.Count("c11.swap.scenarios", 1)
		col.Count("c11.swap.reloads", reloads)
		if reloads > 0 {
			col.NonTrivial(cs)
		}
		if v != "" {
			path := writeReplay(replayDir, fmt.Sprintf("C11-swap-%x.json", cs), map[string]any{"engine": "c11-swap", "case_seed": cs, "violation": v})
			col.Violation(core.Violation{Property: "C11", Signature: "c11-swap:" + sigText(v), Detail: v, Replay: path})
			break
		}
	}
	for i := shard; i < n; i += nshards {
		r := core.NewRng(core.Derive(seed, core.StrLabel("C11conc"), core.StrLabel(variant), uint64(i)))
		cfg := c11Cfg{Seed: r.U64(), Index: i, Scenario: r.Intn(6), Outcome: r.Intn(3), Readers: 1 + r.Intn(6), DelayPerM: []int{0, 100, 300, 600}[r.Intn(4)]}
		cfg.Sync = false
		v, inc, reads := runC11(cfg)
		col.Eval(1)
		col.Count("c11.reads_during_reload", int64(reads))
		col.Count(fmt.Sprintf("c11.scenario%d.outcome%d", cfg.Scenario, cfg.Outcome), 1)
		if inc != "" {
			col.Inconclusive(inc)
			continue
		}
		if reads >= 5 {
			col.NonTrivial(core.HashJSON(cfg))
		}
		if v != "" {
			path := writeReplay(replayDir, fmt.Sprintf("C11-conc-%x.json", core.HashJSON(cfg)), map[string]any{"engine": "c11", "scenario": cfg, "violation": v})
			col.Violation(core.Violation{Property: "C11", Signature: "c11:" + sigText(v), Detail: v + fmt.Sprintf(" (scenario %+v)", cfg), Replay: path})
			if col.NumViolations() >= 5 {
				break
			}
		}
	}
}
