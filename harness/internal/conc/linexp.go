package conc

import (
	"fmt"

	"github.com/anishathalye/porcupine"
)

// Linearizability with expiring entries (C02: "automatic removals (eviction, expiration) appear as
// removals"; C03 for everything a reader may see after a deadline).
//
// The trial's manual clock is moved by the workers themselves while the other workers are inside cache
// calls, so a call samples the clock somewhere between the value the worker read before the call (CLo) and
// the value it read after the return (CHi). The sequential model is a map whose entries carry a deadline
// known up to that uncertainty: state = (value, Lo, Hi) with the true deadline in [Lo, Hi].
//
//   - an operation may have found the entry present only if Hi > CLo (some admissible clock sample lies
//     before some admissible deadline), absent only if there is no entry or Lo <= CHi;
//   - a write gives the entry the deadline [CLo+TTL, CHi+TTL]; under an access-reset policy a read or a
//     conditional operation that found the entry present may or may not have reset it to that (hull of both:
//     the reset is a compare-and-swap after the lookup and can lose against a concurrent writer);
//   - a removal reported with cause Expiration is legitimate only if Lo <= the clock read in the handler.
//
// Every relaxation widens what the model accepts: the check never demands more than "some total order of
// the operations, each judged with some clock value it can have sampled, explains every result".
type expState struct {
	V      int
	Lo, Hi int64
}

func satAdd(a, b int64) int64 {
	s := a + b
	if s < a {
		return 1<<63 - 1
	}
	return s
}

func linExpStep(state, input, output any) (bool, any) {
	st := state.(expState)
	in := input.(linIn)
	out := output.(linOut)
	vis := st.V != 0 && st.Hi > in.CLo
	abs := st.V == 0 || st.Lo <= in.CHi
	fresh := func(v int) expState { return expState{v, satAdd(in.CLo, in.TTL), satAdd(in.CHi, in.TTL)} }
	maybeTouched := func() expState {
		if !in.Access {
			return st
		}
		n := st
		if h := satAdd(in.CHi, in.TTL); h > n.Hi {
			n.Hi = h
		}
		if l := satAdd(in.CLo, in.TTL); l < n.Lo {
			n.Lo = l
		}
		return n
	}
	none := expState{}
	switch in.Kind {
	case KSet:
		if vis && out.RV == st.V && !out.ROk {
			return true, fresh(in.Arg)
		}
		return abs && out.RV == in.Arg && out.ROk, fresh(in.Arg)
	case KSetIfAbsent:
		if out.ROk {
			return abs && out.RV == in.Arg, fresh(in.Arg)
		}
		return vis && out.RV == st.V, maybeTouched()
	case kRead:
		if out.ROk {
			if !(vis && st.V == out.RV) {
				return false, st
			}
			// (the reset may be lost: a reader that found the entry alive publishes its new deadline with a
			// compare-and-swap after the lookup; a writer that judges the entry under the bucket lock in between
			// has the last word - so the model only widens the deadline interval)
			return true, maybeTouched()
		}
		return abs, st
	case kReadQuiet:
		if out.ROk {
			return vis && st.V == out.RV, st
		}
		return abs, st
	case kReadMiss:
		return abs, st
	case kMaybeTouch:
		if vis && (in.Arg == 0 || in.Arg == st.V) {
			return true, maybeTouched()
		}
		return true, st
	case KCompute, KComputeIfPresent:
		if in.Kind == KComputeIfPresent && in.Invoked == 0 {
			return abs && !out.ROk, st
		}
		if in.SawOk {
			if !(vis && in.SawOld == st.V) {
				return false, st
			}
		} else if !abs || in.SawOld != 0 {
			return false, st
		}
		switch in.Dec {
		case DecWrite:
			return out.ROk && out.RV == in.Arg, fresh(in.Arg)
		case DecInvalidate:
			return !out.ROk, none
		default:
			if !in.SawOk {
				return !out.ROk, st
			}
			return out.ROk && out.RV == st.V, maybeTouched()
		}
	case KComputeIfAbsent:
		if in.Invoked == 0 {
			return vis && out.ROk && out.RV == st.V, maybeTouched()
		}
		if !abs {
			return false, st
		}
		if in.Dec == DecWrite {
			return out.ROk && out.RV == in.Arg, fresh(in.Arg)
		}
		return !out.ROk, st
	case KInvalidate:
		if out.ROk {
			return vis && st.V == out.RV, none
		}
		return abs, none
	case KEvict:
		if st.V != in.Arg {
			return false, st
		}
		if in.Dec == 4 && st.Lo > in.CHi {
			return false, st // reported as expired before its deadline
		}
		return true, none
	case KInstall:
		return true, fresh(in.Arg)
	}
	return false, st
}

var linExpModel = porcupine.Model{
	Init: func() any { return expState{} },
	Step: linExpStep,
	DescribeOperation: func(input, output any) string {
		in := input.(linIn)
		return fmt.Sprintf("%s clock=[%d,%d]", linModel.DescribeOperation(input, output), in.CLo, in.CHi)
	},
	DescribeState: func(state any) string {
		st := state.(expState)
		if st.V == 0 {
			return "absent"
		}
		return fmt.Sprintf("%d until [%d,%d]", st.V, st.Lo, st.Hi)
	},
}
