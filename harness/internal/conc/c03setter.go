package conc

import (
	"fmt"
	"runtime"
	"sync"
	"sync/atomic"
	"time"

	"github.com/maypok86/otter/v2"

	"otterverif/internal/core"
)

// ---- C03, per-entry deadline setters under concurrency ---------------------------------------------
//
// The clock is constant while readers of a key race with SetExpiresAfter(k, short). Under a
// write-reset policy a read keeps the deadline, so whichever way the calls are ordered the deadline
// after all of them returned is the one SetExpiresAfter set. The clock then moves exactly onto that
// deadline (and beyond): no operation may show the value any more.

// slowWriting is the write-reset policy with a user callback that takes its time on reads.
type slowWriting struct {
	keepOnUpdate bool // creation-only policy: an update keeps the deadline as well
	ttl          time.Duration
	seed         uint64
	ctr          atomic.Uint64
	perM         int
	reads        atomic.Int64
}

func (s *slowWriting) ExpireAfterCreate(e otter.Entry[int, int]) time.Duration { return s.ttl }
func (s *slowWriting) ExpireAfterUpdate(e otter.Entry[int, int], old int) time.Duration {
	if s.keepOnUpdate {
		return e.ExpiresAfter()
	}
	return s.ttl
}
func (s *slowWriting) ExpireAfterRead(e otter.Entry[int, int]) time.Duration {
	s.reads.Add(1)
	r := core.Mix(s.seed ^ s.ctr.Add(1))
	if int(r%1000) < s.perM {
		if (r>>20)%2 == 0 {
			runtime.Gosched()
		} else {
			time.Sleep(time.Duration((r>>24)%20+1) * time.Microsecond)
		}
	}
	return e.ExpiresAfter()
}

func runC03Setter(seed uint64) (violation string, rounds, racingReads int64) {
	r := core.NewRng(seed)
	clk := &phaseClock{tick: make(chan time.Time)}
	clk.now.Store(1_000_000_000)
	calc := &slowWriting{keepOnUpdate: r.Chance(1, 2), ttl: time.Duration(1+r.Intn(100)) * time.Hour, seed: seed, perM: []int{100, 400, 900}[r.Intn(3)]}
	o := &otter.Options[int, int]{Clock: clk, ExpiryCalculator: calc, Executor: func(fn func()) { fn() }}
	if r.Chance(1, 2) {
		o.MaximumSize = 100
	}
	c, err := otter.New(o)
	if err != nil {
		return "cannot build: " + err.Error(), 0, 0
	}
	defer c.StopAllGoroutines()
	const k = 5
	n := 20 + r.Intn(60)
	for round := 0; round < n; round++ {
		v := round + 1
		c.Set(k, v)
		clk.now.Add(int64(1 + r.Intn(1_000_000)))
		t1 := clk.now.Load()
		short := time.Duration(1 + r.Intn(2_000_000_000))
		readers := 1 + r.Intn(4)
		var wg sync.WaitGroup
		var stop atomic.Bool
		var ready sync.WaitGroup
		ready.Add(readers)
		before := calc.reads.Load()
		for g := 0; g < readers; g++ {
			wg.Add(1)
			go func(g int) {
				defer wg.Done()
				first := true
				for i := 0; i < 200 && !stop.Load(); i++ {
					switch (g + i) % 3 {
					case 0:
						c.GetIfPresent(k)
					case 1:
						c.GetEntry(k)
					default:
						c.Compute(k, func(old int, found bool) (int, otter.ComputeOp) { return 0, otter.CancelOp })
					}
					if first {
						first = false
						ready.Done()
					}
				}
				if first {
					ready.Done()
				}
			}(g)
		}
		updaters := 0
		if calc.keepOnUpdate {
			updaters = r.Intn(3)
		}
		var lastVal atomic.Int64
		lastVal.Store(int64(v))
		for g := 0; g < updaters; g++ {
			wg.Add(1)
			go func(g int) {
				defer wg.Done()
				for i := 0; i < 50 && !stop.Load(); i++ {
					nv := 1_000_000*(round+1) + g*1000 + i
					c.Set(k, nv) // creation-only policy: the update keeps whatever deadline the entry has
				}
			}(g)
		}
		ready.Wait()
		c.SetExpiresAfter(k, short)
		for i := 0; i < r.Intn(20); i++ {
			runtime.Gosched()
		}
		stop.Store(true)
		wg.Wait()
		progress.Add(1)
		rounds++
		racingReads += calc.reads.Load() - before
		want := t1 + int64(short)
		e, ok := c.GetEntryQuietly(k)
		if !ok {
			return fmt.Sprintf("round %d: the entry vanished although the clock (%d) is before every deadline it ever had", round, t1), rounds, racingReads
		}
		// the clock reaches the deadline SetExpiresAfter set
		clk.now.Store(want)
		if got, ok := c.GetIfPresent(k); ok {
			return fmt.Sprintf("round %d: SetExpiresAfter(%d, %d) returned at clock %d while %d readers (and %d updaters, creation-only policy: %v) were using the key (reads - and such updates - keep the deadline); the clock has reached %d = that deadline and GetIfPresent still returns %d (ExpiresAtNano was %d after the calls returned: the override was undone)",
				round, k, short, t1, readers, updaters, calc.keepOnUpdate, want, got, e.ExpiresAtNano), rounds, racingReads
		}
		for kk, vv := range c.All() {
			if kk == k {
				return fmt.Sprintf("round %d: All() yields (%d,%d) at clock %d although SetExpiresAfter set its deadline to %d", round, kk, vv, want, want), rounds, racingReads
			}
		}
		c.CleanUp()
	}
	return "", rounds, racingReads
}

func runC03SetterAll(col *core.Collector, tier, variant string, seed uint64, shard, nshards int, replayDir string) {
	n := 400
	if tier == "thorough" {
		n = 15000
	}
	if variant != "plain" {
		n /= 3
	}
	for i := shard; i < n && col.NumViolations() < 5; i += nshards {
		cs := core.Derive(seed, core.StrLabel("C03setter"), core.StrLabel(variant), uint64(i))
		v, rounds, reads := runC03Setter(cs)
		col.Eval(1)
		col.Count("c03.setter_rounds", rounds)
		col.Count("c03.setter_racing_reads", reads)
		if reads > rounds {
			col.NonTrivial(cs)
		}
		if v != "" {
			path := writeReplay(replayDir, fmt.Sprintf("C03-setter-%x.json", cs), map[string]any{"engine": "c03-setter", "case_seed": cs, "violation": v})
			col.Violation(core.Violation{Property: "C03", Signature: "c03-setter:" + sigText(v), Detail: v, Replay: path})
		}
	}
}
