// Package conc is the concurrent stress engine: G goroutines run mixed operations on few keys,
// every call is recorded at the client boundary with monotonic time stamps, deletion handlers are
// recorded, PRNG-driven delays are injected at the yield points compiled in with -tags verif, and
// after quiescence the recorded history is handed to offline checkers and to the white-box audit.
package conc

import (
	"context"
	"errors"
	"fmt"
	"os"
	"runtime"
	"strings"
	"sync"
	"sync/atomic"
	"time"

	"github.com/maypok86/otter/v2"
	"github.com/maypok86/otter/v2/stats"

	"otterverif/internal/core"
)

// Operation kinds.
const (
	KSet = iota
	KSetIfAbsent
	KGetIfPresent
	KGetEntry
	KCompute
	KComputeIfAbsent
	KComputeIfPresent
	KInvalidate
	KGet // loader-backed
	KInvalidateAll
	KSetMaximum
	KHottest
	KColdest
	KGetMaximum
	KWeightedSize
	KCleanUp
	KAll
	KEstimatedSize
	KAdvance   // harness: move the manual clock (trials with expiry)
	KFinalRead // harness: GetEntryQuietly at quiescence
	KEvict     // harness: automatic removal reported by the handlers
	KInstall   // harness: a finished load whose value was observed as installed
	numKinds
)

var KindNames = []string{"Set", "SetIfAbsent", "GetIfPresent", "GetEntry", "Compute", "ComputeIfAbsent", "ComputeIfPresent",
	"Invalidate", "Get", "InvalidateAll", "SetMaximum", "Hottest", "Coldest", "GetMaximum", "WeightedSize", "CleanUp", "All", "EstimatedSize", "advanceClock",
	"finalRead", "evict", "install"}

const (
	DecCancel = iota
	DecWrite
	DecInvalidate
)

// Rec is one recorded call.
type Rec struct {
	W       int   `json:"w"`
	Kind    int   `json:"kind"`
	Key     int   `json:"key"`
	Arg     int   `json:"arg,omitempty"` // value offered
	Dec     int   `json:"dec,omitempty"`
	Call    int64 `json:"call"`
	Ret     int64 `json:"ret"`
	RV      int   `json:"rv,omitempty"`
	ROk     bool  `json:"rok,omitempty"`
	Invoked int   `json:"invoked,omitempty"` // times the compute function ran
	SawOld  int   `json:"saw_old,omitempty"`
	SawOk   bool  `json:"saw_ok,omitempty"`
	LEnter  int64 `json:"lenter,omitempty"` // loader entry / exit stamps (this call ran the loader)
	LExit   int64 `json:"lexit,omitempty"`
	LVal    int   `json:"lval,omitempty"`
	LNF     bool  `json:"lnf,omitempty"` // the loader answered ErrNotFound
	Err     int   `json:"err,omitempty"` // 0 none 1 error 2 notfound 3 panic
	N       int   `json:"n,omitempty"`
	// trials with a manual clock: its value read before the call / after the return / at loader entry and exit
	ClkLo     int64 `json:"clk_lo,omitempty"`
	ClkHi     int64 `json:"clk_hi,omitempty"`
	LClkEnter int64 `json:"lclk_enter,omitempty"`
	LClkExit  int64 `json:"lclk_exit,omitempty"`
}

// Ev is one deletion handler invocation.
type Ev struct {
	Atomic bool  `json:"atomic"`
	Key    int   `json:"key"`
	Val    int   `json:"val"`
	Cause  int   `json:"cause"`
	T      int64 `json:"t"`
	Seq    int64 `json:"seq"`
	Clk    int64 `json:"clk,omitempty"` // manual clock read at handler entry
}

const (
	ExecSync = iota
	ExecAsync
	ExecDefault
	ExecQueued // tasks are only queued while the workload runs (a stalled pool): the write buffer fills up and writers assist
)

// TrialCfg describes one trial.
type TrialCfg struct {
	Prop       string   `json:"property"`
	Seed       uint64   `json:"seed"`
	Index      int      `json:"index"`
	SizeKind   int      `json:"size_kind"` // 0 none 1 count 2 weight
	Max        uint64   `json:"max"`
	InitCap    int      `json:"init_cap"`
	Exec       int      `json:"exec"`
	G          int      `json:"goroutines"`
	Keys       int      `json:"keys"`
	Ops        int      `json:"ops_per_worker"`
	Mix        []int    `json:"mix"`
	DelayPerM  int      `json:"delay_per_mille"` // probability of a delay at a yield point
	DelayKind  int      `json:"delay_kind"`
	Churn      int      `json:"churn"` // other keys inserted and deleted by a churn goroutine
	Stats      bool     `json:"stats"`
	MaxChoices []uint64 `json:"max_choices,omitempty"`
	Procs      int      `json:"procs,omitempty"`
	ExpiryTTL  int64    `json:"expiry_ttl,omitempty"`       // > 0: write-reset expiry with this ttl and a manual clock moved by the workers
	ExpAccess  bool     `json:"exp_access,omitempty"`       // the expiry policy is access-reset (reads extend the deadline)
	LinExp     bool     `json:"lin_exp,omitempty"`          // judged by the map-with-deadlines linearizability model
	ChurnG     int      `json:"churn_goroutines,omitempty"` // > 1: that many churn goroutines with key ranges of their own, started together
}

// Trial is a running / finished trial.
type Trial struct {
	Cfg            TrialCfg
	Cache          *otter.Cache[int, int]
	Counter        *stats.Counter
	Recs           [][]Rec // per worker
	evs            []Ev
	evIdx          atomic.Int64
	base           time.Time
	wg             sync.WaitGroup // executor tasks
	tasks          atomic.Int64
	hookHit        [64]atomic.Int64
	focus          int  // focus site + 2 (0 = not computed yet); set before the workers start
	focusLong      bool // the focus site is a resize site of the table: some of its delays are long
	tableLoaded    int
	sleeping       atomic.Int32
	statusAtWrite  [4]atomic.Int64 // drain status seen by writers between their load and their CAS
	rngCtr         atomic.Uint64
	stalled        atomic.Bool
	loaderV        atomic.Int64
	loads          atomic.Int64
	qmu            sync.Mutex
	queue          []func()
	churnViolation atomic.Pointer[string]
	churnReads     atomic.Int64
	Clock          *phaseClock
	bodyWrites     sync.WaitGroup // writes issued by other goroutines while an iteration holds the eviction lock
	churnArrived   [4]atomic.Int32
	statSamples    atomic.Int64
	statDecrease   atomic.Pointer[string]
}

func (t *Trial) now() int64 { return int64(time.Since(t.base)) }

// WeightOf is the weigher of weighted trials: a pure function of the value.
func WeightOf(v int, max uint64) uint32 {
	switch h := core.Mix(uint64(v)) % 16; {
	case h < 3:
		return 0
	case h < 9:
		return 1
	case h < 12:
		return 2
	case h < 14:
		return 3
	case h < 15:
		return uint32(min(max, 1<<20))
	default:
		return uint32(min(max+1, 1<<20))
	}
}

var siteSchedAfterWriteLoaded = siteIndex("schedAfterWrite.loaded")
var siteMapResizeWaited = siteIndex("map.resize.waited")

var progress atomic.Int64 // operations completed in this process (watchdog)

// defaultExec is installed once per process as the package's default executor: it counts the
// goroutines started through it for whichever trial is current.
var (
	currentTrial atomic.Pointer[Trial]
	defaultOnce  sync.Once
)

func installDefaultExecutor() {
	defaultOnce.Do(func() {
		otter.VerifSetDefaultExecutor(func(fn func()) {
			t := currentTrial.Load()
			if t == nil {
				go fn()
				return
			}
			t.wg.Add(1)
			t.tasks.Add(1)
			go func() {
				defer t.wg.Done()
				fn()
			}()
		})
	})
}

func (t *Trial) rnd() uint64 { return core.Mix(t.Cfg.Seed ^ t.rngCtr.Add(1)) }

// focusSite is the yield point this trial concentrates its delays on (-1: none).
func (t *Trial) focusSite() int {
	if t.focus != 0 {
		return t.focus - 2
	}
	f := -1
	h := core.Mix(t.Cfg.Seed ^ 0xf0c5)
	names := otter.VerifSiteNames()
	n := uint64(len(names))
	if h%3 == 0 {
		f = int((h >> 8) % n)
	}
	if t.Cfg.Churn > 0 && h%3 != 2 {
		// churn trials grow and shrink the table: two thirds of them concentrate on a yield point of the table
		var tableSites []int
		for i, name := range names {
			if strings.HasPrefix(name, "map.") {
				tableSites = append(tableSites, i)
			}
		}
		if len(tableSites) > 0 {
			f = tableSites[int((h>>8)%uint64(len(tableSites)))]
			t.focusLong = strings.HasPrefix(names[f], "map.resize.") || names[f] == "map.compute.resizeChecked"
		}
	}
	t.focus = f + 2
	return f
}

// hook is the yield-point function.
func (t *Trial) hook(site int) {
	if site < len(t.hookHit) {
		t.hookHit[site].Add(1)
	}
	if site == siteSchedAfterWriteLoaded && t.Cache != nil {
		if st := t.Cache.VerifDrainStatus(); st < 4 {
			t.statusAtWrite[st].Add(1)
		}
	}
	// the sleeper of churn trials (see churn): its writes sleep between loading the table pointer and
	// taking the bucket lock, long enough for whole resizes to happen in between
	if site == t.tableLoaded && t.sleeping.Load() == 1 {
		if r := t.rnd(); r%3 == 0 {
			time.Sleep(time.Duration((r>>24)%400+30) * time.Microsecond)
		}
		return
	}
	if t.Cfg.ChurnG > 1 && site == siteMapResizeWaited {
		// whoever waited for somebody else's resize is held up before it goes on: the next resize is under way by then
		if r := t.rnd(); r%2 == 0 {
			time.Sleep(time.Duration((r>>24)%300+20) * time.Microsecond)
		}
		return
	}
	// a third of the trials concentrate on one yield point (40 % of its visits delay)
	pm := t.Cfg.DelayPerM
	if site == t.focusSite() {
		if pm < 400 {
			pm = 400
		}
		if t.focusLong {
			// a resize decision held up long enough for somebody else's whole resize to happen meanwhile
			if r := t.rnd(); r%4 == 0 {
				time.Sleep(time.Duration((r>>24)%400+30) * time.Microsecond)
				return
			}
		}
	}
	if pm == 0 {
		return
	}
	r := t.rnd()
	if int(r%1000) >= pm {
		return
	}

	switch (r >> 20) % 4 {
	case 0:
		runtime.Gosched()
	case 1:
		for i := 0; i < int((r>>24)%8)+1; i++ {
			runtime.Gosched()
		}
	case 2:
		time.Sleep(time.Duration((r>>24)%20+1) * time.Microsecond)
	default:
		for i := 0; i < int((r>>24)%2000); i++ {
			_ = i
		}
	}
}

var errLoad = errors.New("load failed")

var cancelledCtx, expiredCtx = func() (context.Context, context.Context) {
	c1, cancel := context.WithCancel(context.Background())
	cancel()
	c2, cancel2 := context.WithDeadline(context.Background(), time.Unix(1, 0))
	_ = cancel2
	return c1, c2
}()

// NewTrial builds the cache of a trial.
func NewTrial(cfg TrialCfg) (*Trial, error) {
	t := &Trial{Cfg: cfg, base: time.Now()}
	t.evs = make([]Ev, 0)
	nEv := cfg.G*cfg.Ops*8 + cfg.Churn*48 + 8192
	t.evs = make([]Ev, nEv)
	o := &otter.Options[int, int]{InitialCapacity: cfg.InitCap}
	switch cfg.SizeKind {
	case 1:
		o.MaximumSize = int(cfg.Max)
	case 2:
		o.MaximumWeight = cfg.Max
		m := cfg.Max
		o.Weigher = func(k, v int) uint32 { return WeightOf(v, m) }
	}
	record := func(atomicEv bool) func(e otter.DeletionEvent[int, int]) {
		return func(e otter.DeletionEvent[int, int]) {
			ts := t.now()
			var clk int64
			if t.Clock != nil {
				clk = t.Clock.now.Load()
			}
			i := t.evIdx.Add(1) - 1
			if int(i) < len(t.evs) {
				t.evs[i] = Ev{Atomic: atomicEv, Key: e.Key, Val: e.Value, Cause: int(e.Cause), T: ts, Seq: i, Clk: clk}
			}
		}
	}
	o.OnAtomicDeletion = record(true)
	o.OnDeletion = record(false)
	switch cfg.Exec {
	case ExecSync:
		o.Executor = func(fn func()) { fn() }
	case ExecAsync:
		o.Executor = func(fn func()) {
			t.wg.Add(1)
			t.tasks.Add(1)
			go func() {
				defer t.wg.Done()
				fn()
			}()
		}
	case ExecDefault:
		installDefaultExecutor()
		currentTrial.Store(t)
	case ExecQueued:
		o.Executor = func(fn func()) {
			t.tasks.Add(1)
			t.qmu.Lock()
			t.queue = append(t.queue, fn)
			t.qmu.Unlock()
		}
	}
	if cfg.Stats {
		t.Counter = stats.NewCounter()
		o.StatsRecorder = t.Counter
	}
	if cfg.ExpiryTTL > 0 {
		t.Clock = &phaseClock{tick: make(chan time.Time)}
		t.Clock.now.Store(1_000_000_000)
		o.Clock = t.Clock
		o.ExpiryCalculator = otter.ExpiryWriting[int, int](time.Duration(cfg.ExpiryTTL))
		if cfg.ExpAccess {
			o.ExpiryCalculator = otter.ExpiryAccessing[int, int](time.Duration(cfg.ExpiryTTL))
		}
	}
	c, err := otter.New(o)
	if err != nil {
		return nil, err
	}
	t.Cache = c
	t.focusSite() // computed before any worker runs
	t.tableLoaded = siteIndex("map.compute.tableLoaded")
	return t, nil
}

// EventsLost reports whether more events arrived than the trial's buffer holds (then nothing is judged).
func (t *Trial) EventsLost() bool { return int(t.evIdx.Load()) > len(t.evs) }

// Events returns the recorded handler events in recording order.
func (t *Trial) Events() []Ev {
	n := int(t.evIdx.Load())
	if n > len(t.evs) {
		n = len(t.evs)
	}
	return t.evs[:n]
}

// loader is a LoaderFunc bound to one call record.
func (t *Trial) loader(r *Rec) otter.LoaderFunc[int, int] {
	return func(ctx context.Context, key int) (int, error) {
		if t.Clock != nil {
			r.LClkEnter = t.Clock.now.Load()
		}
		r.LEnter = t.now()
		t.loads.Add(1)
		v := int(9_000_000_000 + t.loaderV.Add(1))
		nf := t.rnd()%4 == 0
		if !nf {
			r.LVal = v
		}
		for i := 0; i < int(t.rnd()%3); i++ {
			runtime.Gosched()
		}
		r.LExit = t.now()
		if t.Clock != nil {
			r.LClkExit = t.Clock.now.Load()
		}
		if nf {
			// "not in the data source": nothing is stored, and a write that landed meanwhile stays
			r.LNF = true
			return 0, otter.ErrNotFound
		}
		return v, nil
	}
}

// worker runs the operations of one goroutine.
func (t *Trial) worker(w int, rng *core.Rng, out *[]Rec) {
	cfg := &t.Cfg
	c := t.Cache
	recs := make([]Rec, 0, cfg.Ops)
	ctr := 0
	newVal := func() int {
		ctr++
		return (w+1)*10_000_000 + ctr
	}
	ctx := context.Background()
	for i := 0; i < cfg.Ops && !t.stalled.Load(); i++ {
		kind := rng.Pick(cfg.Mix)
		r := Rec{W: w, Kind: kind, Key: rng.Intn(cfg.Keys)}
		if t.Clock != nil {
			r.ClkLo = t.Clock.now.Load()
		}
		switch kind {
		case KSet:
			r.Arg = newVal()
			r.Call = t.now()
			r.RV, r.ROk = c.Set(r.Key, r.Arg)
			r.Ret = t.now()
		case KSetIfAbsent:
			r.Arg = newVal()
			r.Call = t.now()
			r.RV, r.ROk = c.SetIfAbsent(r.Key, r.Arg)
			r.Ret = t.now()
		case KGetIfPresent:
			r.Call = t.now()
			r.RV, r.ROk = c.GetIfPresent(r.Key)
			r.Ret = t.now()
		case KGetEntry:
			r.Call = t.now()
			e, ok := c.GetEntry(r.Key)
			r.Ret = t.now()
			r.RV, r.ROk = e.Value, ok
			if ok && e.Key != r.Key {
				r.Err = 9
			}
		case KCompute:
			r.Arg = newVal()
			r.Dec = []int{DecWrite, DecWrite, DecInvalidate, DecCancel}[rng.Intn(4)]
			r.Call = t.now()
			r.RV, r.ROk = c.Compute(r.Key, func(old int, found bool) (int, otter.ComputeOp) {
				r.Invoked++
				r.SawOld, r.SawOk = old, found
				switch r.Dec {
				case DecWrite:
					return r.Arg, otter.WriteOp
				case DecInvalidate:
					return 0, otter.InvalidateOp
				}
				return 0, otter.CancelOp
			})
			r.Ret = t.now()
		case KComputeIfAbsent:
			r.Arg = newVal()
			r.Dec = []int{DecWrite, DecWrite, DecCancel}[rng.Intn(3)]
			r.Call = t.now()
			r.RV, r.ROk = c.ComputeIfAbsent(r.Key, func() (int, bool) {
				r.Invoked++
				return r.Arg, r.Dec == DecCancel
			})
			r.Ret = t.now()
		case KComputeIfPresent:
			r.Arg = newVal()
			r.Dec = []int{DecWrite, DecWrite, DecInvalidate, DecCancel}[rng.Intn(4)]
			r.Call = t.now()
			r.RV, r.ROk = c.ComputeIfPresent(r.Key, func(old int) (int, otter.ComputeOp) {
				r.Invoked++
				r.SawOld, r.SawOk = old, true
				switch r.Dec {
				case DecWrite:
					return r.Arg, otter.WriteOp
				case DecInvalidate:
					return 0, otter.InvalidateOp
				}
				return 0, otter.CancelOp
			})
			r.Ret = t.now()
		case KInvalidate:
			r.Call = t.now()
			r.RV, r.ROk = c.Invalidate(r.Key)
			r.Ret = t.now()
		case KGet:
			// the loader does not look at its context: a cancelled or expired one changes nothing
			gctx := ctx
			switch rng.Intn(8) {
			case 0:
				gctx = cancelledCtx
			case 1:
				gctx = expiredCtx
			}
			r.Call = t.now()
			v, err := c.Get(gctx, r.Key, t.loader(&r))
			r.Ret = t.now()
			r.RV, r.ROk = v, err == nil
			if err != nil {
				r.Err = 1
			}
		case KInvalidateAll:
			r.Call = t.now()
			c.InvalidateAll()
			r.Ret = t.now()
		case KSetMaximum:
			r.Arg = int(cfg.MaxChoices[rng.Intn(len(cfg.MaxChoices))])
			r.Call = t.now()
			c.SetMaximum(uint64(r.Arg))
			r.Ret = t.now()
		case KHottest, KColdest:
			// hold the eviction lock for a while; sometimes write from inside the loop body
			r.Call = t.now()
			n := 0
			it := c.Hottest()
			if kind == KColdest {
				it = c.Coldest()
			}
			// While the eviction lock is held by this iteration, a write arrives from another
			// goroutine (never from this one: a write from inside the loop body can block on the
			// lock this goroutine holds when the write buffer is full).
			spawn := func() {
				v := newVal()
				k := cfg.Keys + 100 + w
				t.bodyWrites.Add(1)
				go func() {
					defer t.bodyWrites.Done()
					c.Set(k, v)
				}()
				runtime.Gosched()
			}
			for range it {
				n++
				if n == 1 && rng.Chance(1, 2) {
					spawn()
				}
				if n > 3 {
					break
				}
			}
			if n == 0 && rng.Chance(1, 2) {
				spawn()
			}
			r.Ret = t.now()
			r.N = n
		case KGetMaximum:
			r.Call = t.now()
			r.RV = int(min(c.GetMaximum(), 1<<40))
			r.Ret = t.now()
		case KWeightedSize:
			r.Call = t.now()
			r.RV = int(c.WeightedSize())
			r.Ret = t.now()
		case KCleanUp:
			r.Call = t.now()
			c.CleanUp()
			r.Ret = t.now()
		case KAll:
			r.Call = t.now()
			for range c.All() {
				r.N++
			}
			r.Ret = t.now()
		case KEstimatedSize:
			r.Call = t.now()
			r.RV = c.EstimatedSize()
			r.Ret = t.now()
		case KAdvance:
			if t.Clock != nil {
				step := int64(rng.Intn(int(2*cfg.ExpiryTTL))) + 1
				if rng.Chance(1, 6) {
					step += int64(1) << 30 // past a timer-wheel tick: the sweep can remove it
				}
				t.Clock.now.Add(step)
			}
		}
		if t.Clock != nil {
			r.ClkHi = t.Clock.now.Load()
		}
		recs = append(recs, r)
		progress.Add(1)
	}
	*out = recs
}

// churn inserts and removes other keys so that the table grows and shrinks during the trial.
func (t *Trial) churn(stop *atomic.Bool, rng *core.Rng, idx int) {
	base := 1_000_000 + idx*50_000 // (below the sleeper's key 2 000 000)
	n := t.Cfg.Churn
	if t.Cfg.ChurnG > 1 {
		n = max(40, n/4)
	}
	// Only this goroutine touches the churn keys: without a bound and without expiration each of them
	// behaves as in a sequential map, whatever the table does meanwhile (growing, shrinking).
	exact := t.Cfg.SizeKind == 0 && t.Cfg.ExpiryTTL == 0
	fail := func(format string, a ...any) {
		msg := fmt.Sprintf(format, a...)
		t.churnViolation.CompareAndSwap(nil, &msg)
	}
	if t.Cfg.ChurnG > 1 {
		// every churn goroutine gets here: they begin together
		t.churnArrived[0].Add(1)
		for t.churnArrived[0].Load() < int32(t.Cfg.ChurnG) {
			runtime.Gosched()
		}
	}
	for round := 0; (round == 0 && t.Cfg.ChurnG > 1 || !stop.Load()) && round < 4; round++ {
		if t.Cfg.ChurnG > 1 && round > 0 {
			// the churn goroutines begin each round together (whoever is left when the workload stops gives up)
			t.churnArrived[round].Add(1)
			for t.churnArrived[round].Load() < int32(t.Cfg.ChurnG) && !stop.Load() {
				runtime.Gosched()
			}
		}
		m := 0
		for i := 0; i < n && (round == 0 || !stop.Load()); i++ { // the first round always runs in full
			t.Cache.Set(base+i, -(i + 1))
			m = i + 1
			progress.Add(1)
		}
		if exact {
			for i := 0; i < m; i++ {
				if v, ok := t.Cache.GetIfPresent(base + i); !ok || v != -(i+1) {
					fail("churn key %d was set to %d by the only goroutine that uses it (no bound, no expiration), and GetIfPresent returns (%d,%v) after %d further inserts of other keys", base+i, -(i + 1), v, ok, m-i-1)
				}
				t.churnReads.Add(1)
			}
		}
		for i := 0; i < n; i++ {
			v, ok := t.Cache.Invalidate(base + i)
			if exact && i < m && (!ok || v != -(i+1)) {
				fail("churn key %d holds %d, set by the only goroutine that uses it, and Invalidate returns (%d,%v)", base+i, -(i + 1), v, ok)
			}
			if exact && i >= m && ok {
				fail("churn key %d was never set in this round and Invalidate returns (%d,true)", base+i, v)
			}
			progress.Add(1)
		}
	}
	for i := 0; i < n; i++ {
		t.Cache.Invalidate(base + i)
	}
}

// Run executes the workload and waits for quiescence (all calls returned, executor idle).
func (t *Trial) Run() {
	cfg := &t.Cfg
	otter.VerifSetHook(t.hook)
	defer otter.VerifSetHook(nil)
	t.Recs = make([][]Rec, cfg.G)
	var wg sync.WaitGroup
	var stop atomic.Bool
	start := make(chan struct{})
	for w := 0; w < cfg.G; w++ {
		wg.Add(1)
		rng := core.NewRng(core.Derive(cfg.Seed, 17, uint64(w)))
		go func(w int) {
			defer wg.Done()
			<-start
			t.worker(w, rng, &t.Recs[w])
		}(w)
	}
	var cwg sync.WaitGroup
	if cfg.Churn > 0 {
		var churnDone atomic.Bool
		var churnLeft atomic.Int32
		ng := max(1, cfg.ChurnG)
		churnLeft.Store(int32(ng))
		for g := 0; g < ng; g++ {
			cwg.Add(1)
			go func(g int) {
				defer cwg.Done()
				defer func() {
					if churnLeft.Add(-1) == 0 {
						churnDone.Store(true)
					}
				}()
				<-start
				t.churn(&stop, core.NewRng(core.Derive(cfg.Seed, 18, uint64(g))), g)
			}(g)
		}
		if cfg.SizeKind == 0 && cfg.ExpiryTTL == 0 {
			// the sleeper: the only goroutine that uses its key; every write of it is read back at once.
			// Its writes are held up right after they loaded the table pointer (see hook) while the churn
			// grows and shrinks the table.
			cwg.Add(1)
			go func() {
				defer cwg.Done()
				<-start
				const k = 2_000_000
				for i := 1; !churnDone.Load() && i < 100000; i++ {
					if i%5 == 0 {
						t.sleeping.Store(1) // (whoever passes the yield point meanwhile sleeps too: only now and then)
					}
					t.Cache.Set(k, i)
					t.sleeping.Store(0)
					if v, ok := t.Cache.GetIfPresent(k); !ok || v != i {
						msg := fmt.Sprintf("key %d was set to %d by the only goroutine that uses it (no bound, no expiration; the call was held up between loading the table pointer and taking the bucket lock while the table was resized) and GetIfPresent right after returns (%d,%v)", k, i, v, ok)
						t.churnViolation.CompareAndSwap(nil, &msg)
						break
					}
					t.churnReads.Add(1)
				}
				t.Cache.Invalidate(k)
			}()
		}
	}
	if cfg.Stats {
		cwg.Add(1)
		go func() {
			defer cwg.Done()
			<-start
			prev := t.Cache.Stats()
			for !stop.Load() {
				cur := t.Cache.Stats()
				t.statSamples.Add(1)
				if cur.Hits < prev.Hits || cur.Misses < prev.Misses || cur.Evictions < prev.Evictions || cur.EvictionWeight < prev.EvictionWeight ||
					cur.LoadSuccesses < prev.LoadSuccesses || cur.LoadFailures < prev.LoadFailures || cur.TotalLoadTime < prev.TotalLoadTime {
					msg := fmt.Sprintf("a statistics counter decreased: %+v then %+v", prev, cur)
					t.statDecrease.CompareAndSwap(nil, &msg)
				}
				prev = cur
				runtime.Gosched()
			}
		}()
	}
	close(start)
	wg.Wait()
	t.bodyWrites.Wait()
	stop.Store(true)
	cwg.Wait()
	t.Settle()
}

// Settle waits for the executor to go idle; queued tasks are run in submission order.
func (t *Trial) Settle() {
	for {
		t.wg.Wait()
		t.qmu.Lock()
		if len(t.queue) == 0 {
			t.qmu.Unlock()
			return
		}
		fn := t.queue[0]
		t.queue = t.queue[1:]
		t.qmu.Unlock()
		fn()
	}
}

// Close releases the cache.
func (t *Trial) Close() {
	if t.Cfg.Exec == ExecDefault {
		currentTrial.CompareAndSwap(t, nil)
	}
	t.Cache.StopAllGoroutines()
	t.Cache = nil // break the handler -> trial -> cache cycle so the cache can be collected
}

// ---- stall watchdog --------------------------------------------------------------------------

// Watchdog reports a stall when no operation completed for limit while a workload is running.
type Watchdog struct {
	active atomic.Bool
	Fired  atomic.Bool
	Dump   string
}

func StartWatchdog(limit time.Duration, dumpPath string, onFire func(dump string)) *Watchdog {
	w := &Watchdog{}
	go func() {
		last := progress.Load()
		lastChange := time.Now()
		for {
			time.Sleep(500 * time.Millisecond)
			if !w.active.Load() {
				last = progress.Load()
				lastChange = time.Now()
				continue
			}
			cur := progress.Load()
			if cur != last {
				last = cur
				lastChange = time.Now()
				continue
			}
			if time.Since(lastChange) > limit {
				buf := make([]byte, 4<<20)
				n := runtime.Stack(buf, true)
				w.Dump = string(buf[:n])
				os.WriteFile(dumpPath, buf[:n], 0o644)
				w.Fired.Store(true)
				onFire(w.Dump)
				return
			}
		}
	}()
	return w
}

func (w *Watchdog) Arm()    { w.active.Store(true) }
func (w *Watchdog) Disarm() { w.active.Store(false) }

func (t *Trial) String() string {
	return fmt.Sprintf("trial %d seed %d", t.Cfg.Index, t.Cfg.Seed)
}
