package conc

import (
	"fmt"
	"time"

	"github.com/maypok86/otter/v2"

	"otterverif/internal/core"
)

// Iteration with writes from the loop body (C03: "no operation ... iterates over it" once the clock has
// reached an entry's deadline). One goroutine, manual clock, a lifetime that is a function of the value
// (write-reset policy). While All() / Values() is being ranged over, the loop body - at a position chosen
// by the case seed - overwrites keys with values of a much shorter lifetime (keys already yielded, keys
// still to come, or both), moves the clock past those short lifetimes and lets the iteration go on. The
// harness knows the deadline of every value it ever wrote (values are unique: clock at the write + lifetime of
// the value); whatever the iteration yields afterwards must have its deadline after the clock at the moment
// it is yielded. The replaced long-lived values may still be yielded (they were present when the iteration
// began), the short-lived replacements may not, and neither may anything after its own deadline.
type iterLifetime struct{ short map[int]bool }

func (l *iterLifetime) ttl(v int) time.Duration {
	if l.short[v] {
		return time.Duration(1 + v%97)
	}
	return time.Hour + time.Duration(v%1000)
}

func runC03Iter(seed uint64) (violation string, yieldedAfter, shortWrites int64) {
	r := core.NewRng(seed)
	life := &iterLifetime{short: map[int]bool{}}
	clk := &phaseClock{tick: make(chan time.Time)}
	clk.now.Store(1_000_000_000 + int64(r.Intn(1<<30)))
	o := &otter.Options[int, int]{
		Clock:    clk,
		Executor: func(fn func()) { fn() },
		ExpiryCalculator: otter.ExpiryWritingFunc(func(e otter.Entry[int, int]) time.Duration {
			return life.ttl(e.Value)
		}),
		InitialCapacity: []int{0, 16, 1000}[r.Intn(3)],
	}
	nKeys := []int{8, 40, 128, 300}[r.Intn(4)]
	switch r.Intn(3) {
	case 1:
		o.MaximumSize = nKeys * 2
	case 2:
		o.MaximumWeight = uint64(nKeys * 2)
		o.Weigher = func(k, v int) uint32 { return 1 }
	}
	c, err := otter.New(o)
	if err != nil {
		return "", 0, 0
	}
	defer c.StopAllGoroutines()
	deadline := map[int]int64{} // value -> deadline
	next := 1000
	write := func(k int, short bool) {
		next++
		v := next
		if short {
			life.short[v] = true
		}
		deadline[v] = clk.now.Load() + int64(life.ttl(v))
		c.Set(k, v)
	}
	for k := 0; k < nKeys; k++ {
		write(k, false)
	}
	if r.Chance(1, 2) {
		c.CleanUp()
	}
	trigger := r.Intn(nKeys)
	mode := r.Intn(3) // 0: overwrite the keys not yet yielded, 1: all keys, 2: the keys already yielded and a few others
	sweep := r.Chance(1, 4)
	values := r.Chance(1, 3)
	seen := map[int]bool{}
	n := 0
	triggered := false
	body := func(k, v int, haveKey bool) {
		now := clk.now.Load()
		dl, ok := deadline[v]
		if !ok {
			if violation == "" {
				violation = fmt.Sprintf("the iteration yielded value %d, which was never written", v)
			}
			return
		}
		if triggered {
			yieldedAfter++
		}
		if dl <= now && violation == "" {
			violation = fmt.Sprintf("the iteration yielded value %d (key %d) at clock %d although its deadline %d had been reached: the value was written from the loop body (%d yields earlier the body overwrote keys with short-lived values and moved the clock past their deadlines); short-lived=%v",
				v, k, now, dl, n-trigger, life.short[v])
		}
		if haveKey {
			seen[k] = true
		}
		if n == trigger {
			triggered = true
			for kk := 0; kk < nKeys; kk++ {
				switch mode {
				case 0:
					if haveKey && seen[kk] {
						continue
					}
				case 2:
					if haveKey && !seen[kk] && kk%5 != 0 {
						continue
					}
				}
				write(kk, true)
				shortWrites++
			}
			clk.now.Add(200) // past every short lifetime, far before the long ones
			if sweep {
				clk.now.Add(2 << 30)
				c.CleanUp()
			}
		}
		n++
	}
	if values {
		for v := range c.Values() {
			body(-1, v, false)
		}
	} else {
		for k, v := range c.All() {
			body(k, v, true)
		}
	}
	return violation, yieldedAfter, shortWrites
}

func runC03IterAll(col *core.Collector, tier, variant string, seed uint64, shard, nshards int, replayDir string) {
	n := 1600
	if tier == "thorough" {
		n = 60000
	}
	if variant != "plain" {
		n /= 4
	}
	for i := shard; i < n && col.NumViolations() < 5; i += nshards {
		cs := core.Derive(seed, core.StrLabel("C03iter"), core.StrLabel(variant), uint64(i))
		v, after, writes := runC03Iter(cs)
		col.Eval(1)
		col.Count("c03.iter_scenarios", 1)
		col.Count("c03.iter_yields_after_body_writes", after)
		col.Count("c03.iter_short_lived_writes_from_body", writes)
		if after > 0 && writes > 0 {
			col.NonTrivial(cs)
		}
		if v != "" {
			path := writeReplay(replayDir, fmt.Sprintf("C03-iter-%x.json", cs), map[string]any{"engine": "c03-iter", "case_seed": cs, "violation": v})
			col.Violation(core.Violation{Property: "C03", Signature: "c03-iter:" + sigText(v), Detail: v, Replay: path})
		}
	}
}
