package conc

import (
	"context"
	"errors"
	"fmt"
	"os"
	"path/filepath"
	"runtime"
	"sort"
	"strings"
	"sync"
	"sync/atomic"
	"time"

	"encoding/json"

	"github.com/maypok86/otter/v2"

	"otterverif/internal/core"
)

// ---- C08: single flight, waiter results, termination -----------------------------------------

const (
	loValue = iota
	loError
	loNotFound
	loPanic
)

// inv is one loader invocation.
type inv struct {
	Bulk    bool        `json:"bulk"`
	Reload  bool        `json:"reload"`
	Keys    []int       `json:"keys"`
	Enter   int64       `json:"enter"`
	Exit    int64       `json:"exit"`
	Out     int         `json:"out"`
	Vals    map[int]int `json:"vals,omitempty"` // value returned per key
	Caller  int         `json:"caller"`
	Trigger int64       `json:"trigger"` // call time of the API call that passed this loader
	ID      int         `json:"id"`
}

type lcall struct {
	W        int         `json:"w"`
	Kind     string      `json:"kind"` // Get BulkGet Refresh BulkRefresh Set Invalidate
	Keys     []int       `json:"keys"`
	Call     int64       `json:"call"`
	Ret      int64       `json:"ret"`
	Val      int         `json:"val,omitempty"`
	Res      map[int]int `json:"res,omitempty"`
	Err      string      `json:"err,omitempty"`
	Panic    bool        `json:"panic,omitempty"`
	Msgs     int         `json:"msgs"`
	ErrID    int         `json:"err_id,omitempty"` // id of the failed invocation whose result this call returned
	OwnPanic bool        `json:"own_panic,omitempty"`
	NilChan  bool        `json:"nil_chan,omitempty"`

	ch  <-chan otter.RefreshResult[int, int]
	bch <-chan []otter.RefreshResult[int, int]
	own *atomic.Int32
}

type burstCfg struct {
	Seed      uint64 `json:"seed"`
	Index     int    `json:"index"`
	G         int    `json:"goroutines"`
	Keys      int    `json:"keys"`
	Rounds    int    `json:"rounds"`
	Mixed     bool   `json:"mixed"` // Set / Invalidate too
	Max       int    `json:"max"`   // 0 = unbounded
	HoldUs    int    `json:"hold_us"`
	DelayPerM int    `json:"delay_per_mille"`
	OutW      []int  `json:"outcome_weights"`
}

type burst struct {
	cfg            burstCfg
	cache          *otter.Cache[int, int]
	base           time.Time
	mu             sync.Mutex
	invs           []*inv
	calls          []lcall
	evs            []Ev
	evict          []int64 // evictNode.enter times
	wg             sync.WaitGroup
	valCtr         atomic.Int64
	rngCtr         atomic.Uint64
	execPanics     atomic.Int64
	emptyBulk      atomic.Pointer[string]
	nilLoaderCalls atomic.Int64
}

func (b *burst) now() int64  { return int64(time.Since(b.base)) }
func (b *burst) rnd() uint64 { return core.Mix(b.cfg.Seed ^ b.rngCtr.Add(1)) }

var errLoaderFailed = errors.New("loader failed")

type burstLoader struct {
	b      *burst
	caller int
	own    *atomic.Int32 // set to 1 when an invocation made through this loader panicked
	callT  *int64        // call time of the API call this loader was passed to
}

func (l burstLoader) run(bulk, reload bool, keys []int) (map[int]int, error) {
	b := l.b
	in := &inv{Bulk: bulk, Reload: reload, Keys: append([]int(nil), keys...), Enter: b.now(), Caller: l.caller, Vals: map[int]int{}}
	in.Trigger = in.Enter
	if l.callT != nil {
		in.Trigger = atomic.LoadInt64(l.callT)
	}
	if bulk && len(keys) == 0 {
		msg := fmt.Sprintf("the bulk loader (reload=%v, caller %d) was invoked with an empty key list: nothing was missing that this call had to load", reload, l.caller)
		b.emptyBulk.CompareAndSwap(nil, &msg)
	}
	r := core.NewRng(b.rnd())
	in.Out = r.Pick(b.cfg.OutW)
	b.mu.Lock()
	in.ID = len(b.invs) + 1
	b.invs = append(b.invs, in)
	b.mu.Unlock()
	if b.cfg.HoldUs > 0 {
		time.Sleep(time.Duration(r.Intn(b.cfg.HoldUs)+1) * time.Microsecond)
	} else {
		runtime.Gosched()
	}
	res := map[int]int{}
	if in.Out == loValue {
		for _, k := range keys {
			if bulk && r.Chance(1, 6) {
				continue // partial
			}
			v := int(5_000_000_000 + b.valCtr.Add(1))
			res[k] = v
		}
		if bulk && r.Chance(1, 5) {
			k := b.cfg.Keys + 50 + r.Intn(4) // a volunteered key outside the requested domain
			res[k] = int(5_000_000_000 + b.valCtr.Add(1))
		}
		if bulk && r.Chance(1, 4) {
			// a volunteered key inside the domain: it may be one the caller asked the cache for but
			// was not asked to load, because another call is loading it right now
			k := r.Intn(b.cfg.Keys)
			if _, asked := res[k]; !asked {
				res[k] = int(5_000_000_000 + b.valCtr.Add(1))
			}
		}
	}
	b.mu.Lock()
	for k, v := range res {
		in.Vals[k] = v
	}
	in.Exit = b.now()
	b.mu.Unlock()
	progress.Add(1)
	switch in.Out {
	case loValue:
		return res, nil
	case loError:
		return nil, fmt.Errorf("%w #%d#", errLoaderFailed, in.ID)
	case loNotFound:
		return nil, fmt.Errorf("not found #%d#: %w", in.ID, otter.ErrNotFound)
	default:
		if l.own != nil {
			l.own.Store(1)
		}
		panic(fmt.Sprintf("loader panic (harness) #%d#", in.ID))
	}
}

func (l burstLoader) Load(ctx context.Context, key int) (int, error) {
	m, err := l.run(false, false, []int{key})
	return m[key], err
}

func (l burstLoader) Reload(ctx context.Context, key, old int) (int, error) {
	m, err := l.run(false, true, []int{key})
	return m[key], err
}

func (l burstLoader) BulkLoad(ctx context.Context, keys []int) (map[int]int, error) {
	return l.run(true, false, keys)
}

func (l burstLoader) BulkReload(ctx context.Context, keys, olds []int) (map[int]int, error) {
	return l.run(true, true, keys)
}

// errID extracts the id of the failed invocation an error stems from (0 if none).
func errID(err error) int {
	if err == nil {
		return 0
	}
	s := err.Error()
	i := strings.Index(s, " #")
	if i < 0 {
		return 0
	}
	j := strings.Index(s[i+2:], "#")
	if j < 0 {
		return 0
	}
	n := 0
	fmt.Sscanf(s[i+2:i+2+j], "%d", &n)
	return n
}

func errKind(err error) string {
	switch {
	case err == nil:
		return ""
	case errors.Is(err, otter.ErrNotFound):
		return "notfound"
	case errors.Is(err, errLoaderFailed):
		return "error"
	case strings.Contains(err.Error(), "loader panic (harness)"):
		return "panic"
	case strings.Contains(err.Error(), "nil pointer dereference"):
		return "nilloader" // the panic of a call that was given no loader
	}
	return "other:" + err.Error()
}

func newBurst(cfg burstCfg) (*burst, error) {
	b := &burst{cfg: cfg, base: time.Now()}
	o := &otter.Options[int, int]{
		RefreshCalculator: otter.RefreshWriting[int, int](time.Nanosecond), // every entry is immediately stale: reads reload
		Logger:            &otter.NoopLogger{},
	}
	if cfg.Max > 0 {
		o.MaximumSize = cfg.Max
	}
	o.Executor = func(fn func()) {
		b.wg.Add(1)
		go func() {
			defer b.wg.Done()
			defer func() {
				if r := recover(); r != nil {
					b.execPanics.Add(1)
				}
			}()
			fn()
		}()
	}
	o.OnAtomicDeletion = func(e otter.DeletionEvent[int, int]) {
		ts := b.now()
		b.mu.Lock()
		b.evs = append(b.evs, Ev{Atomic: true, Key: e.Key, Val: e.Value, Cause: int(e.Cause), T: ts})
		b.mu.Unlock()
	}
	c, err := otter.New(o)
	if err != nil {
		return nil, err
	}
	b.cache = c
	return b, nil
}

func (b *burst) hook(site int) {
	if site == siteIndex("evictNode.enter") {
		ts := b.now()
		b.mu.Lock()
		b.evict = append(b.evict, ts)
		b.mu.Unlock()
	}
	if b.cfg.DelayPerM == 0 {
		return
	}
	r := b.rnd()
	if int(r%1000) < b.cfg.DelayPerM {
		if (r>>20)%2 == 0 {
			runtime.Gosched()
		} else {
			time.Sleep(time.Duration((r>>24)%30+1) * time.Microsecond)
		}
	}
}

func (b *burst) record(c lcall) {
	b.mu.Lock()
	b.calls = append(b.calls, c)
	b.mu.Unlock()
	progress.Add(1)
}

func (b *burst) worker(w int, rng *core.Rng) {
	ctx := context.Background()
	cfg := &b.cfg
	vctr := 0
	for round := 0; round < cfg.Rounds; round++ {
		kindW := []int{8, 5, 3, 3, 0, 0, 2, 2}
		if cfg.Mixed {
			kindW[4], kindW[5] = 3, 3
		}
		nk := 1 + rng.Intn(min(4, cfg.Keys))
		keys := make([]int, 0, nk)
		for i := 0; i < nk; i++ {
			keys = append(keys, rng.Intn(cfg.Keys))
		}
		lc := lcall{W: w}
		var own atomic.Int32
		callT := new(int64)
		atomic.StoreInt64(callT, b.now())
		ld := burstLoader{b: b, caller: w, own: &own, callT: callT}
		func() {
			defer func() {
				if r := recover(); r != nil {
					lc.Panic = true
					lc.Ret = b.now()
				}
			}()
			// now and then the caller passes no loader at all (a nil interface): the call panics like a call whose
			// loader panics - and like that one it must leave nothing behind that later calls would wait for
			noLoader := core.Mix(cfg.Seed^uint64(w)<<20^uint64(round))%48 == 0
			switch rng.Pick(kindW) {
			case 0:
				lc.Kind, lc.Keys = "Get", keys[:1]
				lc.Call = b.now()
				if noLoader {
					lc.Kind = "Get(nil loader)"
					b.nilLoaderCalls.Add(1)
					b.cache.Get(ctx, keys[0], nil)
					lc.Ret = b.now()
					break
				}
				v, err := b.cache.Get(ctx, keys[0], ld)
				lc.Ret = b.now()
				lc.Val, lc.Err, lc.ErrID = v, errKind(err), errID(err)
				if err != nil && rng.Chance(2, 3) {
					// a failed load leaves nothing behind: retry at once (recorded as its own call)
					b.record(lc)
					lc = lcall{W: w, Kind: "Get", Keys: keys[:1], Call: b.now()}
					v, err = b.cache.Get(ctx, keys[0], ld)
					lc.Ret = b.now()
					lc.Val, lc.Err, lc.ErrID = v, errKind(err), errID(err)
				}
			case 1:
				lc.Kind, lc.Keys = "BulkGet", keys
				lc.Call = b.now()
				if noLoader {
					lc.Kind = "BulkGet(nil loader)"
					b.nilLoaderCalls.Add(1)
					b.cache.BulkGet(ctx, keys, nil)
					lc.Ret = b.now()
					break
				}
				m, err := b.cache.BulkGet(ctx, keys, ld)
				lc.Ret = b.now()
				lc.Res, lc.Err = m, errKind(err)
			case 2:
				lc.Kind, lc.Keys = "Refresh", keys[:1]
				lc.Call = b.now()
				ch := b.cache.Refresh(ctx, keys[0], ld)
				lc.Ret = b.now()
				lc.ch, lc.own, lc.NilChan = ch, &own, ch == nil
			case 3:
				lc.Kind, lc.Keys = "BulkRefresh", keys
				lc.Call = b.now()
				ch := b.cache.BulkRefresh(ctx, keys, ld)
				lc.Ret = b.now()
				lc.bch, lc.own, lc.NilChan = ch, &own, ch == nil
			case 4:
				vctr++
				lc.Kind, lc.Keys, lc.Val = "Set", keys[:1], (w+1)*10_000_000+vctr
				lc.Call = b.now()
				b.cache.Set(keys[0], lc.Val)
				lc.Ret = b.now()
			case 5:
				lc.Kind, lc.Keys = "Invalidate", keys[:1]
				lc.Call = b.now()
				b.cache.Invalidate(keys[0])
				lc.Ret = b.now()
			case 6:
				// not a write: a cancelled computation must leave in-flight loads alone
				lc.Kind, lc.Keys = "Compute(cancel)", keys[:1]
				lc.Call = b.now()
				b.cache.Compute(keys[0], func(old int, found bool) (int, otter.ComputeOp) { return 0, otter.CancelOp })
				lc.Ret = b.now()
			default:
				lc.Kind, lc.Keys = "ComputeIfAbsent(cancel)", keys[:1]
				lc.Call = b.now()
				b.cache.ComputeIfAbsent(keys[0], func() (int, bool) { return 0, true })
				lc.Ret = b.now()
			}
		}()
		lc.OwnPanic = own.Load() == 1
		b.record(lc)
	}
}

// collectRefresh is called at quiescence (every call returned, the executor is idle): the single
// message of every manual refresh must be in its channel by now. No wall-clock deadline is involved.
// A refresh whose own loader panicked re-raises inside its executor task and promises nothing.
func (b *burst) collectRefresh() {
	for i := range b.calls {
		lc := &b.calls[i]
		if lc.own != nil && lc.own.Load() == 1 {
			lc.OwnPanic = true
		}
		for n := 0; n < 3; n++ {
			got := false
			select {
			case m, ok := <-lc.ch:
				if ok {
					got = true
					lc.Msgs++
					lc.Res = map[int]int{m.Key: m.Value}
					lc.Err = errKind(m.Err)
				}
			case ms, ok := <-lc.bch:
				if ok {
					got = true
					lc.Msgs++
					lc.Res = map[int]int{}
					for _, m := range ms {
						lc.Res[m.Key] = m.Value
						if m.Err != nil {
							lc.Err = errKind(m.Err)
						}
					}
				}
			default:
			}
			if !got {
				break
			}
		}
	}
}

// judgeBurst applies the C08 oracles.
func (b *burst) judgeBurst() (violation string, overlaps int, waiters int) {
	cfg := &b.cfg
	if p := b.emptyBulk.Load(); p != nil {
		return *p, 0, 0
	}
	// (1) single flight
	type span struct {
		in *inv
	}
	byKey := map[int][]*inv{}
	for _, in := range b.invs {
		for _, k := range in.Keys {
			byKey[k] = append(byKey[k], in)
		}
	}
	writes := map[int][][2]int64{}
	for _, c := range b.calls {
		if c.Kind == "Set" || c.Kind == "Invalidate" {
			writes[c.Keys[0]] = append(writes[c.Keys[0]], [2]int64{c.Call, c.Ret})
		}
	}
	for k, list := range byKey {
		sort.Slice(list, func(i, j int) bool { return list[i].Enter < list[j].Enter })
		for i := 0; i < len(list); i++ {
			for j := i + 1; j < len(list); j++ {
				l1, l2 := list[i], list[j]
				if l2.Enter > l1.Exit {
					break
				}
				if l1 == l2 {
					continue
				}
				// overlapping invocations for key k
				explained := false
				// the first load is in flight from the call that requested it (a refresh task registers
				// all its keys before it invokes a loader), so a write since then explains the second one
				// (either call may have been registered first: anywhere between its trigger and its loader entry)
				from := min(l1.Trigger, l2.Trigger, l1.Enter)
				for _, w := range writes[k] {
					if w[0] <= l2.Enter && w[1] >= from {
						explained = true
					}
				}
				for _, e := range b.evs {
					if e.Key == k && (e.Cause == 3 || e.Cause == 4) && e.T >= from && e.T <= l2.Exit {
						explained = true
					}
				}
				// An eviction that entered evictNode earlier may reach the table (where it discards the key's
				// in-flight call) much later: any eviction activity up to 100 ms before counts.
				for _, ts := range b.evict {
					if ts >= from-int64(100*time.Millisecond) && ts <= l2.Enter {
						explained = true
					}
				}
				if !explained {
					return fmt.Sprintf("the loader was invoked for key %d at [%d,%d] (caller %d, reload=%v) and again at [%d,%d] (caller %d, reload=%v) while the first invocation was still running, and the key was not written, invalidated or evicted in between",
						k, l1.Enter, l1.Exit, l1.Caller, l1.Reload, l2.Enter, l2.Exit, l2.Caller, l2.Reload), overlaps, waiters
				}
				overlaps++
			}
		}
	}
	// (2) results
	produced := map[int]map[int]bool{} // key -> values offered for it
	addv := func(k, v int) {
		if produced[k] == nil {
			produced[k] = map[int]bool{}
		}
		produced[k][v] = true
	}
	for _, in := range b.invs {
		for k, v := range in.Vals {
			addv(k, v)
		}
	}
	for _, c := range b.calls {
		if c.Kind == "Set" {
			addv(c.Keys[0], c.Val)
		}
	}
	for _, c := range b.calls {
		switch c.Kind {
		case "Get":
			k := c.Keys[0]
			if c.Panic {
				// the caller's own load panicked
				if !c.OwnPanic {
					return fmt.Sprintf("Get(%d) by worker %d panicked although its own loader did not", k, c.W), overlaps, waiters
				}
				continue
			}
			if c.Err == "" {
				if !produced[k][c.Val] {
					return fmt.Sprintf("Get(%d) returned %d, which no loader invocation or write ever produced for that key", k, c.Val), overlaps, waiters
				}
			} else {
				ok := false
				for _, in := range byKey[k] {
					kind := []string{"", "error", "notfound", "panic"}[in.Out]
					// a call stays in flight after its loader returned (until its result is applied), so
					// only "started before this call returned" can be demanded
					if kind == c.Err && in.Enter <= c.Ret {
						ok = true
					}
					if in.Bulk && in.Out == loValue && c.Err == "notfound" && in.Enter <= c.Ret {
						if _, supplied := in.Vals[k]; !supplied {
							ok = true // a bulk load that did not supply the key
						}
					}
				}
				if !ok && c.Err == "panic" {
					// a refresh task whose first batch panicked finishes the calls of its other batch with
					// that panic: the error may stem from the invocation for another key of the same task
					for _, in := range b.invs {
						if in.Out == loPanic && in.Enter <= c.Ret {
							ok = true
						}
					}
				}
				if !ok && c.Err == "nilloader" {
					// the call it joined was made without a loader (by this burst, before this call returned)
					for _, nc := range b.calls {
						if strings.Contains(nc.Kind, "nil loader") && nc.Call <= c.Ret {
							ok = true
						}
					}
				}
				if !ok {
					return fmt.Sprintf("Get(%d) returned error %q, but no loader invocation for that key that started before the call returned ([%d,%d]) had that outcome", k, c.Err, c.Call, c.Ret), overlaps, waiters
				}
			}
			own := false
			for _, in := range byKey[k] {
				if in.Caller == c.W && !in.Bulk && in.Enter >= c.Call && in.Exit <= c.Ret {
					own = true
				}
			}
			if !own {
				waiters++
			}
		case "BulkGet":
			if c.Panic {
				if !c.OwnPanic {
					return fmt.Sprintf("BulkGet(%v) by worker %d panicked although its own loader did not", c.Keys, c.W), overlaps, waiters
				}
				continue
			}
			req := map[int]bool{}
			for _, k := range c.Keys {
				req[k] = true
			}
			for k, v := range c.Res {
				if !req[k] {
					return fmt.Sprintf("BulkGet(%v) returned key %d which was not requested", c.Keys, k), overlaps, waiters
				}
				if !produced[k][v] {
					return fmt.Sprintf("BulkGet(%v) returned %d for key %d, which no loader invocation or write ever produced for that key", c.Keys, v, k), overlaps, waiters
				}
			}
			if c.Err == "" {
				// every requested key is accounted for: a key left out of the result of a BulkGet that reported
				// no error was answered "not in the data source" by some load of that key - a failed load
				// must surface as the error instead
				for _, k := range c.Keys {
					if _, got := c.Res[k]; got {
						continue
					}
					ok := false
					for _, in := range byKey[k] {
						if in.Enter > c.Ret {
							continue
						}
						if in.Out == loNotFound {
							ok = true
						}
						if in.Bulk && in.Out == loValue {
							if _, supplied := in.Vals[k]; !supplied {
								ok = true
							}
						}
					}
					if !ok {
						return fmt.Sprintf("BulkGet(%v) at [%d,%d] returned no error and no value for key %d, but no loader invocation for that key that started before the call returned answered not-found or left the key out", c.Keys, c.Call, c.Ret, k), overlaps, waiters
					}
				}
			}
		case "Refresh", "BulkRefresh":
			if c.NilChan {
				return fmt.Sprintf("%s returned a nil channel although refreshing is configured", c.Kind), overlaps, waiters
			}
			if c.OwnPanic {
				continue
			}
			if c.Msgs != 1 {
				return fmt.Sprintf("%s(%v) by worker %d: %d messages are in its channel after every call returned and the executor went idle (exactly one is expected; its own loader did not panic)", c.Kind, c.Keys, c.W, c.Msgs), overlaps, waiters
			}
		}
	}
	// (3) a failed load leaves no record behind: once any call has returned the result of a failed
	// invocation, a Get called afterwards must not be handed that same result again
	type idKey struct{ id, key int }
	firstRet := map[idKey]int64{} // a bulk invocation finishes the calls of its keys one after the other
	for _, c := range b.calls {
		if c.ErrID != 0 && c.Kind == "Get" {
			ik := idKey{c.ErrID, c.Keys[0]}
			if t, ok := firstRet[ik]; !ok || c.Ret < t {
				firstRet[ik] = c.Ret
			}
		}
	}
	for _, c := range b.calls {
		if c.Kind == "Get" && c.ErrID != 0 && c.Call > firstRet[idKey{c.ErrID, c.Keys[0]}] {
			return fmt.Sprintf("Get(%d) called at %d returned the %s result of loader invocation #%d, which had already been handed to a call for that key that returned at %d: the finished load was still registered",
				c.Keys[0], c.Call, c.Err, c.ErrID, firstRet[idKey{c.ErrID, c.Keys[0]}]), overlaps, waiters
		}
	}
	// (3b) without writes and evictions a value some loader supplied for a key (asked for or volunteered)
	// stays cached unless a load of that key answered not-found: a reload that fails keeps the old value,
	// a successful one replaces it
	if !cfg.Mixed && cfg.Max == 0 {
		supplied := map[int]int{} // key -> id of an invocation that supplied it
		notFound := map[int]bool{}
		for _, in := range b.invs {
			switch in.Out {
			case loValue:
				for k := range in.Vals {
					supplied[k] = in.ID
				}
				if in.Bulk {
					for _, k := range in.Keys {
						if _, ok := in.Vals[k]; !ok {
							notFound[k] = true
						}
					}
				}
			case loNotFound:
				for _, k := range in.Keys {
					notFound[k] = true
				}
			}
		}
		for k, id := range supplied {
			if notFound[k] {
				continue
			}
			if _, ok := b.cache.GetEntryQuietly(k); !ok {
				return fmt.Sprintf("key %d is absent at quiescence although loader invocation #%d supplied a value for it, no load of it ever answered not-found, and the burst contains no write, invalidation or eviction", k, id), overlaps, waiters
			}
		}
	}
	// (4) nothing left in flight
	if n := b.cache.VerifCalls(); n != 0 {
		return fmt.Sprintf("%d in-flight load records are left after every call returned and the executor is idle", n), overlaps, waiters
	}
	_ = cfg
	return "", overlaps, waiters
}

// probeFresh checks from the outside that no in-flight record is left: a Get of an absent key loads afresh.
func (b *burst) probeFresh() string {
	ctx := context.Background()
	for k := 0; k < b.cfg.Keys; k++ {
		if _, ok := b.cache.GetEntryQuietly(k); ok {
			continue
		}
		done := make(chan struct{})
		var invoked atomic.Bool
		go func() {
			defer close(done)
			b.cache.Get(ctx, k, otter.LoaderFunc[int, int](func(ctx context.Context, key int) (int, error) {
				invoked.Store(true)
				return -1, nil
			}))
		}()
		select {
		case <-done:
			// (whether the loader ran is not judged: with a bound, asynchronous maintenance may
			// install or evict the key between the probe's steps; a leftover record shows as a hang
			// here or as a non-zero record count in the audit)
			_ = invoked.Load()
		case <-time.After(180 * time.Second):
			return fmt.Sprintf("after quiescence Get(%d) of an absent key does not return: an in-flight record was left behind", k)
		}
	}
	return ""
}

func genBurst(seed uint64, variant string, i int) burstCfg {
	r := core.NewRng(core.Derive(seed, core.StrLabel("C08"), core.StrLabel(variant), uint64(i)))
	c := burstCfg{Seed: r.U64(), Index: i}
	c.G = 2 + r.Intn(10)
	c.Keys = 1 + r.Intn(5)
	c.Rounds = 3 + r.Intn(12)
	c.Mixed = r.Chance(1, 3)
	if c.Mixed && r.Chance(1, 2) {
		c.Max = 1 + r.Intn(4)
	}
	c.HoldUs = []int{0, 20, 100, 400}[r.Intn(4)]
	c.DelayPerM = []int{0, 50, 200}[r.Intn(3)]
	c.OutW = [][]int{{10, 0, 0, 0}, {6, 2, 2, 1}, {3, 3, 3, 2}, {5, 0, 0, 3}}[r.Intn(4)]
	return c
}

// RunC08 runs the single-flight bursts of one shard.
func RunC08(col *core.Collector, tier, variant string, seed uint64, shard, nshards int, replayDir, outBase string) {
	col.Note("rule: a burst = G goroutines issuing Get/BulkGet/Refresh/BulkRefresh (mixed bursts also Set/Invalidate, optionally a tiny maximum) over overlapping key sets with a harness loader that stays inside for a PRNG time and ends with value/error/ErrNotFound/panic or partial/extra bulk maps; non-trivial = at least one call that waited for another call's load; distinct = hash of (calls, invocations)")
	n := 3000
	if tier == "thorough" {
		n = 80000
	}
	if variant != "plain" {
		n /= 3
	}
	dumpPath := filepath.Join(replayDir, fmt.Sprintf("C08-stall-%s-%d.txt", variant, shard))
	var cur burstCfg
	wd := StartWatchdog(40*time.Second, dumpPath, func(dump string) {
		col.Violation(core.Violation{Property: "C08", Signature: "stall", Detail: fmt.Sprintf("no call completed for 40 s: waiters do not terminate (burst %+v); blocked in: %s", cur, firstFrames(dump)), Replay: dumpPath})
		col.Write(outBase)
		os.Exit(0)
	})
	for i := shard; i < n; i += nshards {
		cfg := genBurst(seed, variant, i)
		cur = cfg
		b, err := newBurst(cfg)
		if err != nil {
			col.Inconclusive(err.Error())
			continue
		}
		otter.VerifSetHook(b.hook)
		wd.Arm()
		var wg sync.WaitGroup
		for w := 0; w < cfg.G; w++ {
			wg.Add(1)
			go func(w int) {
				defer wg.Done()
				b.worker(w, core.NewRng(core.Derive(cfg.Seed, 5, uint64(w))))
			}(w)
		}
		wg.Wait()
		b.wg.Wait()
		wd.Disarm()
		otter.VerifSetHook(nil)
		col.Eval(1)
		b.collectRefresh()
		v, overlaps, waiters := b.judgeBurst()
		if v == "" {
			wd.Arm()
			v = b.probeFresh()
			b.wg.Wait()
			wd.Disarm()
		}
		col.Count("loader_invocations", int64(len(b.invs)))
		col.Count("calls", int64(len(b.calls)))
		col.Count("explained_overlaps", int64(overlaps))
		col.Count("calls_without_own_load", int64(waiters))
		col.Count("executor_task_panics", b.execPanics.Load())
		col.Count("calls_without_a_loader", b.nilLoaderCalls.Load())
		for _, in := range b.invs {
			col.Count("outcome."+[]string{"value", "error", "notfound", "panic"}[in.Out], 1)
		}
		h := core.HashJSON([]any{b.calls, b.invs})
		if waiters >= 1 {
			col.NonTrivial(h)
		}
		if col.NumSamples() < 2 && waiters >= 1 {
			nc := min(len(b.calls), 10)
			col.Sample(map[string]any{"burst": cfg, "calls": b.calls[:nc], "invocations": len(b.invs)})
		}
		if v != "" {
			path := filepath.Join(replayDir, fmt.Sprintf("C08-burst-%x.json", h))
			data, _ := json.MarshalIndent(map[string]any{"engine": "burst", "burst": cfg, "violation": v, "calls": b.calls, "invocations": b.invs, "events": b.evs, "evict_node_times": b.evict}, "", " ")
			os.WriteFile(path, data, 0o644)
			col.Violation(core.Violation{Property: "C08", Signature: "burst:" + sigText(v), Detail: v + fmt.Sprintf(" (burst %+v)", cfg), Replay: path})
		}
		b.cache.StopAllGoroutines()
		b.cache = nil
		if col.NumViolations() >= 6 {
			break
		}
	}
}
