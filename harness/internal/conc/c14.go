package conc

import (
	"fmt"
	"path/filepath"
	"runtime"
	"sync"
	"sync/atomic"
	"time"

	"github.com/maypok86/otter/v2"

	"otterverif/internal/core"
)

// runC14Pairs is the lost-wake-up stress of C14: one long-lived bounded cache with the (countable)
// default executor; every round a few goroutines write at the same moment, the later ones delayed by
// a swept spin so that their write lands somewhere inside the maintenance run the first one scheduled
// (in particular around its final status transition, where no yield point can be placed). After every
// round - all calls returned, every executor goroutine finished - the audit is taken WITHOUT a further
// cache call: the status is idle, the write buffer is empty and the structures agree.
//
// idleEntry: one of the racers is not a writer but a read of an entry that has expired and was not swept
// (manual clock, deadline and reads within one timer tick): such a read enters the drain scheduling while
// the status is idle - the other way into the protocol - at the moment a writer moves it to required.
func runC14Pairs(seed uint64, rounds int, idleEntry bool) (violation string, t *Trial, done int) {
	const keys = 8
	const lingering = 100
	cfg := TrialCfg{Prop: "C14", Seed: seed, SizeKind: 1, Max: 1024, Exec: ExecDefault, G: 3, Ops: rounds, Keys: keys}
	if idleEntry {
		cfg.ExpiryTTL = 1000
	}
	t, err := NewTrial(cfg)
	if err != nil {
		return "cannot build: " + err.Error(), nil, 0
	}
	otter.VerifSetHook(t.hook)
	defer otter.VerifSetHook(nil)
	c := t.Cache
	for k := 0; k < keys; k++ {
		c.Set(k, -1-k)
	}
	c.CleanUp()
	t.wg.Wait()
	var sink atomic.Int64
	for round := 0; round < rounds; round++ {
		writers := 2
		if round%5 == 0 {
			writers = 3
		}
		delay := round % 400
		if idleEntry {
			delay = round % 60
			// a fresh entry that has expired by the time of the race and lingers in the table
			c.Set(lingering, -1000-round)
			t.wg.Wait()
			t.Clock.now.Add(3000)
		}
		var ready atomic.Int32
		var wg sync.WaitGroup
		for w := 0; w < writers; w++ {
			wg.Add(1)
			go func(w int) {
				defer wg.Done()
				ready.Add(1)
				for int(ready.Load()) != writers {
				}
				// (in the idle-entry variant the racers take turns in being the delayed one)
				for i := 0; i < delay*((w+round/60)%writers); i++ {
					sink.Add(1)
				}
				if idleEntry && w == 0 {
					c.GetIfPresent(lingering)
					return
				}
				c.Set((round+w)%keys, round*4+w+1)
			}(w)
		}
		wg.Wait()
		t.wg.Wait()
		progress.Add(1)
		done++
		if v := t.CheckAudit(c.VerifAudit(), true); v != "" {
			return fmt.Sprintf("round %d (%d racing writers, spin %d): all calls returned and every executor goroutine finished, and without a further call: %s", round, writers, delay, v), t, done
		}
	}
	var atomicN, delN int
	for _, e := range t.Events() {
		if e.Atomic {
			atomicN++
		} else {
			delN++
		}
	}
	if !t.EventsLost() && atomicN != delN {
		return fmt.Sprintf("%d values were reported to OnAtomicDeletion but only %d OnDeletion notifications were delivered without a further cache call", atomicN, delN), t, done
	}
	return "", t, done
}

// runC14Full: a Hottest/Coldest iteration holds the eviction lock while writers publish more events
// than the write buffer holds; the writers that find it full help out themselves as soon as the lock
// is free. After everything returned (no further call) every recorded write must have been applied.
func runC14Full(seed uint64) (violation string, t *Trial, blockedAt int64) {
	r := core.NewRng(seed)
	writers := 2 + r.Intn(7)
	total := 2048 + 100 + r.Intn(700)
	cfg := TrialCfg{Prop: "C14", Seed: seed, SizeKind: 1, Max: uint64(64 + r.Intn(8000)), Exec: ExecDefault, G: writers + 1, Ops: total/writers + 2, Keys: 4000}
	t, err := NewTrial(cfg)
	if err != nil {
		return "cannot build: " + err.Error(), nil, 0
	}
	otter.VerifSetHook(t.hook)
	defer otter.VerifSetHook(nil)
	c := t.Cache
	for k := 0; k < 4; k++ {
		c.Set(k, -1-k)
	}
	c.CleanUp()
	t.wg.Wait()
	var issued atomic.Int64
	// In half of the scenarios the writers stop as soon as the iteration lets go of the lock: the writes
	// that were stuck on the full buffer are then the last ones of the run, and nothing comes after them
	// that could pick up an event they left behind.
	var releasing atomic.Bool
	stopAtRelease := seed&2 == 2
	tight := seed&4 == 4
	spin := r.Intn(4000)
	var sink atomic.Int64
	locked := make(chan struct{})
	var wg sync.WaitGroup
	wg.Add(1)
	go func() {
		defer wg.Done()
		it := c.Hottest()
		if seed&1 == 1 {
			it = c.Coldest()
		}
		first := true
		for range it {
			if !first {
				continue
			}
			first = false
			close(locked)
			// hold the lock until the writers are stuck on the full buffer (or have all finished):
			// no write was issued for a while. Workload shaping only, nothing is judged by time.
			if tight {
				// let go of the lock at the moment the first writers find the buffer full: they are then
				// inside their bounded retry loop, and the drain that follows lets a retried offer through
				capEvents := int64(128 * roundUpPow2(procsAtStart))
				for issued.Load() < capEvents+1 && issued.Load() < int64(total) {
				}
				for i := 0; i < spin; i++ {
					sink.Add(1)
				}
				blockedAt = issued.Load()
				releasing.Store(true)
				continue
			}
			last, same := int64(-1), 0
			for same < 40 && issued.Load() < int64(total) {
				time.Sleep(100 * time.Microsecond)
				if cur := issued.Load(); cur == last {
					same++
				} else {
					last, same = cur, 0
				}
			}
			blockedAt = issued.Load()
			releasing.Store(true)
		}
	}()
	<-locked
	keyspace := 1 + r.Intn(3000)
	for w := 0; w < writers; w++ {
		wg.Add(1)
		go func(w int) {
			defer wg.Done()
			for i := w; i < total; i += writers {
				if stopAtRelease && releasing.Load() {
					return
				}
				issued.Add(1)
				c.Set(10+i%keyspace, i+1)
				progress.Add(1)
			}
		}(w)
	}
	wg.Wait()
	t.wg.Wait()
	if v := t.CheckAudit(c.VerifAudit(), true); v != "" {
		return fmt.Sprintf("an iteration held the eviction lock while %d writers issued %d writes (%d had been issued when they all stood still); after every call returned and every executor goroutine finished, without a further call: %s", writers, total, blockedAt, v), t, blockedAt
	}
	var atomicN, delN int
	for _, e := range t.Events() {
		if e.Atomic {
			atomicN++
		} else {
			delN++
		}
	}
	if !t.EventsLost() && atomicN != delN {
		return fmt.Sprintf("an iteration held the eviction lock while %d writers issued %d writes: %d values were reported to OnAtomicDeletion but only %d OnDeletion notifications were delivered without a further cache call", writers, total, atomicN, delN), t, blockedAt
	}
	return "", t, blockedAt
}

// runC14InvAll: an InvalidateAll that inherits a nearly full write buffer. An iteration holds the eviction lock;
// an InvalidateAll queues behind it (the first and only waiter); writers publish almost as many events as the
// write buffer holds - all of them return, none finds the buffer full, the status says "required" -; then the
// iteration lets go, InvalidateAll takes the lock over and drains the buffer, while late writers keep publishing
// for a moment, so that more events pass through that one drain than the buffer holds. InvalidateAll is a lock
// holder that is not the maintenance run: whatever it does with the buffer, once everything returned and every
// executor goroutine finished the status must be idle and the buffer empty, without a further call.
func runC14InvAll(seed uint64) (violation string, t *Trial, published int64, takeover bool) {
	r := core.NewRng(seed)
	capEvents := 128 * roundUpPow2(procsAtStart)
	writers := 2 + r.Intn(5)
	early := capEvents - 4 - r.Intn(60)
	late := 2 + r.Intn(5)
	lateEach := 20 + r.Intn(300)
	hold := time.Duration(1500+r.Intn(1500)) * time.Microsecond
	keyspace := 1 + r.Intn(3000)
	cfg := TrialCfg{Prop: "C14", Seed: seed, SizeKind: 1, Max: uint64(64 + r.Intn(8000)), Exec: ExecDefault, G: writers + late + 2, Ops: (early+late*lateEach)/writers + 2, Keys: 4000}
	t, err := NewTrial(cfg)
	if err != nil {
		return "cannot build: " + err.Error(), nil, 0, false
	}
	otter.VerifSetHook(t.hook)
	defer otter.VerifSetHook(nil)
	c := t.Cache
	for k := 0; k < 4; k++ {
		c.Set(k, -1-k)
	}
	c.CleanUp()
	t.wg.Wait()
	var releasing atomic.Bool
	var earlyDone sync.WaitGroup
	earlyDone.Add(writers)
	locked := make(chan struct{})
	locked2 := make(chan struct{})
	var xReturned atomic.Bool
	var wg sync.WaitGroup
	wg.Add(1)
	go func() {
		defer wg.Done()
		iter := func() func(func(otter.Entry[int, int]) bool) {
			if seed&1 == 1 {
				return c.Coldest()
			}
			return c.Hottest()
		}
		// first iteration: the InvalidateAll queues behind it and waits for more than a millisecond
		first := true
		for range iter() {
			if first {
				first = false
				close(locked)
				time.Sleep(2 * time.Millisecond) // (workload shaping only)
			}
		}
		// second iteration, started at once: the waiter wakes up to a lock that is taken again; from then on the
		// lock is handed over to it directly when this iteration ends (no try-lock can slip in between)
		first = true
		for range iter() {
			if first {
				first = false
				close(locked2)
				earlyDone.Wait()
				time.Sleep(hold)
				releasing.Store(true)
			}
		}
		if first { // (the InvalidateAll slipped in between the two iterations and emptied the cache)
			close(locked2)
			earlyDone.Wait()
			releasing.Store(true)
		}
	}()
	<-locked
	wg.Add(1)
	go func() {
		defer wg.Done()
		c.InvalidateAll()
		xReturned.Store(true)
		progress.Add(1)
	}()
	<-locked2
	takeover = !xReturned.Load()
	var issued atomic.Int64
	for w := 0; w < writers; w++ {
		wg.Add(1)
		go func(w int) {
			defer wg.Done()
			defer earlyDone.Done()
			for i := w; i < early; i += writers {
				issued.Add(1)
				c.Set(10+i%keyspace, i+1)
				progress.Add(1)
			}
		}(w)
	}
	for w := 0; w < late; w++ {
		wg.Add(1)
		go func(w int) {
			defer wg.Done()
			for !releasing.Load() {
			}
			for i := 0; i < lateEach; i++ {
				issued.Add(1)
				c.Set(10+(w*lateEach+i)%keyspace, 1_000_000+w*lateEach+i)
				progress.Add(1)
			}
		}(w)
	}
	wg.Wait()
	t.wg.Wait()
	if v := t.CheckAudit(c.VerifAudit(), true); v != "" {
		return fmt.Sprintf("an InvalidateAll took the eviction lock over from an iteration with %d events in the write buffer (it holds %d) while %d late writers published %d more; after every call returned and every executor goroutine finished, without a further call: %s", early, capEvents, late, late*lateEach, v), t, issued.Load(), takeover
	}
	var atomicN, delN int
	for _, e := range t.Events() {
		if e.Atomic {
			atomicN++
		} else {
			delN++
		}
	}
	if !t.EventsLost() && atomicN != delN {
		return fmt.Sprintf("an InvalidateAll took the eviction lock over from an iteration with a nearly full write buffer: %d values were reported to OnAtomicDeletion but only %d OnDeletion notifications were delivered without a further cache call", atomicN, delN), t, issued.Load(), takeover
	}
	return "", t, issued.Load(), takeover
}

// procsAtStart is GOMAXPROCS as the library saw it when it sized its write buffer (128 events per
// processor, rounded up to a power of two); trials change GOMAXPROCS later.
var procsAtStart = runtime.GOMAXPROCS(0)

func roundUpPow2(n int) int {
	p := 1
	for p < n {
		p <<= 1
	}
	return p
}

func runC14PairsAll(col *core.Collector, tier, variant string, seed uint64, shard int, replayDir string, wd *Watchdog) {
	rounds := 25000
	if tier == "thorough" {
		rounds = 600000
	}
	if variant != "plain" {
		rounds /= 4
	}
	fulls := 16
	if tier == "thorough" {
		fulls = 150
	}
	for i := 0; i < fulls && col.NumViolations() < 6; i++ {
		cs := core.Derive(seed, core.StrLabel("C14full"), uint64(shard), uint64(i))
		wd.Arm()
		v, t, at := runC14Full(cs)
		wd.Disarm()
		col.Eval(1)
		col.Count("full_buffer.scenarios", 1)
		if at >= 2048 {
			col.Count("full_buffer.scenarios_with_writers_stuck_on_the_full_buffer", 1)
			col.NonTrivial(core.HashJSON([]any{cs, at}))
		}
		if t != nil {
			t.Close()
		}
		if v != "" {
			path := writeReplay(replayDir, fmt.Sprintf("C14-full-%x.json", cs), map[string]any{"engine": "c14-full", "case_seed": cs, "violation": v})
			col.Violation(core.Violation{Property: "C14", Signature: "full:" + sigText(v), Detail: v, Replay: filepath.Clean(path)})
		}
	}
	for i := 0; i < fulls*2 && col.NumViolations() < 6; i++ {
		cs := core.Derive(seed, core.StrLabel("C14invall"), uint64(shard), uint64(i))
		wd.Arm()
		v, t, published, takeover := runC14InvAll(cs)
		wd.Disarm()
		col.Eval(1)
		col.Count("invalidate_all_takeover.scenarios", 1)
		col.Count("invalidate_all_takeover.writes", published)
		if takeover {
			col.Count("invalidate_all_takeover.scenarios_in_which_it_was_still_waiting_when_the_writes_began", 1)
			col.NonTrivial(cs)
		}
		if t != nil {
			t.Close()
		}
		if v != "" {
			path := writeReplay(replayDir, fmt.Sprintf("C14-invall-%x.json", cs), map[string]any{"engine": "c14-invall", "case_seed": cs, "violation": v})
			col.Violation(core.Violation{Property: "C14", Signature: "invall:" + sigText(v), Detail: v, Replay: filepath.Clean(path)})
		}
	}
	for part := 0; part < 4 && col.NumViolations() < 6; part++ {
		cs := core.Derive(seed, core.StrLabel("C14pairs"), uint64(shard), uint64(part))
		wd.Arm()
		v, t, done := runC14Pairs(cs, rounds/4, part%2 == 1)
		wd.Disarm()
		col.Eval(1)
		col.Count("pairs.rounds", int64(done))
		if part%2 == 1 {
			col.Count("pairs.rounds_with_a_read_of_a_lingering_expired_entry", int64(done))
		}
		if t != nil {
			for i, name := range []string{"idle", "required", "processingToIdle", "processingToRequired"} {
				col.Count("pairs.drain_status_seen_by_writers."+name, t.statusAtWrite[i].Load())
			}
			if t.statusAtWrite[2].Load()+t.statusAtWrite[3].Load() > 0 {
				col.NonTrivial(core.HashJSON([]any{cs, t.statusAtWrite[2].Load(), t.statusAtWrite[3].Load()}))
			}
			t.Close()
		}
		if v != "" {
			path := writeReplay(replayDir, fmt.Sprintf("C14-pairs-%x.json", cs), map[string]any{"engine": "c14-pairs", "case_seed": cs, "rounds": rounds / 4, "violation": v})
			col.Violation(core.Violation{Property: "C14", Signature: "pairs:" + sigText(v), Detail: v, Replay: filepath.Clean(path)})
		}
	}
}
