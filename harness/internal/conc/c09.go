package conc

import (
	"context"
	"encoding/json"
	"errors"
	"fmt"
	"os"
	"path/filepath"
	"runtime"
	"sync"
	"sync/atomic"
	"time"

	"github.com/maypok86/otter/v2"

	"otterverif/internal/core"
)

// ---- C09: a load never overwrites a newer write ----------------------------------------------
//
// Reading used: a load is in flight from the moment its loader function is entered (the latest
// start a black box can see). A loaded value v_L (unique per invocation) must not be observed as
// current after the return of an effective explicit write that was called after the loader entry.

const (
	lkGetMiss = iota
	lkGetStale
	lkRefreshAbsent
	lkRefreshPresent
	lkBulkGetMiss
	lkBulkRefreshPresent
	lkGetExpired // the key holds an entry that has expired and was not swept: Get misses and loads
	numLoadKinds
)

var loadKindNames = []string{"Get(absent)", "Get(stale->reload)", "Refresh(absent)", "Refresh(present)", "BulkGet(absent)", "BulkRefresh(present)", "Get(expired, unswept)"}

const (
	wkSet = iota
	wkInvalidate
	wkComputeWrite
	wkComputeInvalidate
	wkSetIfAbsent
	wkComputeIfAbsent
	wkComputeIfPresentWrite
	wkInvalidateAll
	numWriteKinds
)

var writeKindNames = []string{"Set", "Invalidate", "Compute(write)", "Compute(invalidate)", "SetIfAbsent", "ComputeIfAbsent(write)", "ComputeIfPresent(write)", "InvalidateAll"}

const (
	posDuringLoader = iota
	posBeforeInstall
	posRacing
	numPos
)

var posNames = []string{"while the loader runs", "after the loader returned, before the installation began", "racing with the installation"}

type scenario struct {
	Load     int  `json:"load"`
	Write    int  `json:"write"`
	Pos      int  `json:"pos"`
	Exec     int  `json:"exec"` // 0 sync 1 async
	Rep      int  `json:"rep"`
	NotFound bool `json:"loader_reports_not_found"`        // the load ends with "not found" instead of a value
	Prelude  int  `json:"prelude,omitempty"`               // history before the scenario: 1/2 = a BulkGet whose loader volunteered that many unrequested keys, 3 = a failed load
	Expire   bool `json:"written_entry_expires,omitempty"` // expiry configured; the clock passes the written entry's deadline before the loader returns
	Fail     bool `json:"loader_fails,omitempty"`          // the load ends with an error: nothing of it may reach the written entry (value, refresh time)
}

// c09Refresh makes every entry stale after 1 ns; a reload failure would postpone the next reload by an hour.
type c09Refresh struct{}

func (c09Refresh) RefreshAfterCreate(otter.Entry[int, int]) time.Duration { return time.Nanosecond }
func (c09Refresh) RefreshAfterUpdate(otter.Entry[int, int], int) time.Duration {
	return time.Nanosecond
}
func (c09Refresh) RefreshAfterReload(otter.Entry[int, int], int) time.Duration {
	return time.Nanosecond
}
func (c09Refresh) RefreshAfterReloadFailure(otter.Entry[int, int], error) time.Duration {
	return time.Hour
}

func (s scenario) String() string {
	out := ""
	if s.NotFound {
		out = ", loader reports not-found"
	}
	if s.Fail {
		out = ", loader fails"
	}
	if s.Prelude != 0 {
		out += fmt.Sprintf(", prelude %d", s.Prelude)
	}
	if s.Expire {
		out += ", the written entry expires before the loader returns"
	}
	return fmt.Sprintf("%s, %s %s (executor %d%s)", loadKindNames[s.Load], writeKindNames[s.Write], posNames[s.Pos], s.Exec, out)
}

type scenOut struct {
	violation    string
	inconclusive string
	effective    bool
}

func runScenario(s scenario) (out scenOut) {
	const k = 0
	const v0 = 111
	const vS = 222
	const vL = 333
	var (
		entered   = make(chan struct{}, 1)
		release   = make(chan struct{})
		atInstall = make(chan struct{}, 1)
		relInst   = make(chan struct{})
		loaderIn  atomic.Bool
		parkOnce  atomic.Bool
		wg        sync.WaitGroup
	)
	present := s.Load == lkGetStale || s.Load == lkRefreshPresent || s.Load == lkBulkRefreshPresent
	o := &otter.Options[int, int]{
		RefreshCalculator: otter.RefreshWriting[int, int](time.Nanosecond),
		Logger:            &otter.NoopLogger{},
	}
	if s.Fail {
		o.RefreshCalculator = c09Refresh{}
	}
	if s.Exec == 0 {
		o.Executor = func(fn func()) { fn() }
	} else {
		o.Executor = func(fn func()) {
			wg.Add(1)
			go func() {
				defer wg.Done()
				fn()
			}()
		}
	}
	var clk *phaseClock
	if s.Expire || s.Load == lkGetExpired {
		clk = &phaseClock{tick: make(chan time.Time)}
		clk.now.Store(1_000_000_000)
		o.Clock = clk
		o.ExpiryCalculator = otter.ExpiryWriting[int, int](time.Minute)
	}
	c, err := otter.New(o)
	if err != nil {
		out.inconclusive = err.Error()
		return
	}
	defer c.StopAllGoroutines()
	// a history before the scenario (other keys): the bookkeeping of in-flight loads must not depend on it
	switch s.Prelude {
	case 1, 2:
		extra := s.Prelude
		c.BulkGet(context.Background(), []int{100}, otter.BulkLoaderFunc[int, int](func(ctx context.Context, keys []int) (map[int]int, error) {
			m := map[int]int{}
			for _, kk := range keys {
				m[kk] = 7
			}
			for i := 1; i <= extra; i++ {
				m[100+i] = 7
			}
			return m, nil
		}))
	case 3:
		c.Get(context.Background(), 100, otter.LoaderFunc[int, int](func(ctx context.Context, key int) (int, error) {
			return 0, errLoaderFailed
		}))
	}
	wg.Wait()
	if s.Load == lkGetExpired {
		c.Set(k, v0)
		clk.now.Add(int64(2 * time.Minute)) // the entry has expired; nothing sweeps it
	}
	if present {
		c.Set(k, v0)
		if clk != nil {
			clk.now.Add(2)
		} else {
			time.Sleep(2 * time.Microsecond) // the entry is stale after 1 ns
		}
	}
	loadFn := func() (int, error) {
		if loaderIn.CompareAndSwap(false, true) {
			entered <- struct{}{}
			<-release
		}
		if s.NotFound {
			return 0, otter.ErrNotFound
		}
		if s.Fail {
			return 0, errLoaderFailed
		}
		return vL, nil
	}
	ld := scenLoader{fn: loadFn}
	otter.VerifSetHook(func(site int) {
		if s.Pos == posBeforeInstall && site == siteIndex("load.beforeInstall") && loaderIn.Load() && parkOnce.CompareAndSwap(false, true) {
			atInstall <- struct{}{}
			<-relInst
		}
	})
	defer otter.VerifSetHook(nil)
	ctx := context.Background()
	done := make(chan struct{})
	var gotV int
	var gotErr error
	go func() {
		defer close(done)
		switch s.Load {
		case lkGetMiss, lkGetStale, lkGetExpired:
			gotV, gotErr = c.Get(ctx, k, ld)
		case lkRefreshAbsent, lkRefreshPresent:
			if ch := c.Refresh(ctx, k, ld); ch != nil {
				r := <-ch
				gotV, gotErr = r.Value, r.Err
			}
		case lkBulkGetMiss:
			m, err := c.BulkGet(ctx, []int{k, 5}, ld)
			gotV, gotErr = m[k], err
		case lkBulkRefreshPresent:
			c.Set(5, v0)
			if ch := c.BulkRefresh(ctx, []int{k, 5}, ld); ch != nil {
				<-ch
			}
		}
	}()
	select {
	case <-entered:
	case <-time.After(10 * time.Second):
		out.inconclusive = "the loader was never entered"
		close(release)
		return
	}
	// the explicit write, called strictly after the loader entry; whether it took effect is read
	// from what the call itself reported (a conditional write may find the loaded value installed)
	var inserted atomic.Bool
	var refAfterWrite atomic.Int64 // refresh time of the written entry, read right after the write returned
	write := func() {
		defer func() {
			if e, ok := c.GetEntryQuietly(k); s.Fail && ok && e.Value == vS {
				refAfterWrite.Store(e.RefreshableAtNano)
			}
		}()
		switch s.Write {
		case wkSet:
			c.Set(k, vS)
			inserted.Store(true)
		case wkInvalidate:
			c.Invalidate(k)
			inserted.Store(true)
		case wkComputeWrite:
			c.Compute(k, func(old int, found bool) (int, otter.ComputeOp) { return vS, otter.WriteOp })
			inserted.Store(true)
		case wkComputeInvalidate:
			c.Compute(k, func(old int, found bool) (int, otter.ComputeOp) { return 0, otter.InvalidateOp })
			inserted.Store(true)
		case wkSetIfAbsent:
			if _, ok := c.SetIfAbsent(k, vS); ok {
				inserted.Store(true)
			}
		case wkComputeIfAbsent:
			c.ComputeIfAbsent(k, func() (int, bool) {
				inserted.Store(true)
				return vS, false
			})
		case wkComputeIfPresentWrite:
			c.ComputeIfPresent(k, func(old int) (int, otter.ComputeOp) {
				inserted.Store(true)
				return vS, otter.WriteOp
			})
		case wkInvalidateAll:
			c.InvalidateAll()
			inserted.Store(present) // its effect on loads of absent keys is documented as undefined
		}
	}
	wantPresent, wantV := false, 0
	switch s.Write {
	case wkSet, wkComputeWrite, wkSetIfAbsent, wkComputeIfAbsent, wkComputeIfPresentWrite:
		wantPresent, wantV = true, vS
	}
	expire := func() {
		if clk != nil && s.Expire {
			clk.now.Add(int64(2 * time.Minute)) // the written entry's deadline passes; nothing sweeps it
		}
	}
	switch s.Pos {
	case posDuringLoader:
		write()
		expire()
		close(release)
	case posBeforeInstall:
		close(release)
		select {
		case <-atInstall:
			write()
			expire()
			close(relInst)
		case <-done:
			// the installation never passed the yield point (nothing to install)
			out.inconclusive = "the load finished without reaching the installation point"
			return
		case <-time.After(10 * time.Second):
			out.inconclusive = "the installation point was not reached"
			close(relInst)
			return
		}
	case posRacing:
		var w sync.WaitGroup
		w.Add(1)
		go func() {
			defer w.Done()
			for i := 0; i < s.Rep%7; i++ {
				runtime.Gosched()
			}
			write()
		}()
		close(release)
		w.Wait()
	}
	select {
	case <-done:
	case <-time.After(180 * time.Second):
		out.violation = "the loading call did not return"
		return
	}
	wg.Wait()
	out.effective = inserted.Load()
	e, ok := c.GetEntryQuietly(k)
	if s.NotFound {
		if (s.Load == lkGetMiss || s.Load == lkGetExpired) && !errors.Is(gotErr, otter.ErrNotFound) {
			out.violation = fmt.Sprintf("the waiting Get did not receive the not-found result: got (%d,%v)", gotV, gotErr)
			return
		}
	} else if s.Fail {
		if (s.Load == lkGetMiss || s.Load == lkGetExpired) && !errors.Is(gotErr, errLoaderFailed) {
			out.violation = fmt.Sprintf("the waiting Get did not receive the loader's error: got (%d,%v)", gotV, gotErr)
			return
		}
	} else if (s.Load == lkGetMiss || s.Load == lkGetExpired) && (gotErr != nil || gotV != vL) {
		out.violation = fmt.Sprintf("the waiting Get did not receive the loaded value: got (%d,%v)", gotV, gotErr)
		return
	}
	if !out.effective {
		return
	}
	if ok && e.Value == vL {
		out.violation = fmt.Sprintf("the cache holds the loaded value %d although the key was explicitly written (%s) after the load had started; expected %s",
			vL, writeKindNames[s.Write], map[bool]string{true: fmt.Sprintf("value %d", wantV), false: "no entry"}[wantPresent])
		return
	}
	if s.Expire {
		return // the written entry has expired by now: all that matters is that the load did not come back
	}
	if ref := refAfterWrite.Load(); s.Fail && s.Pos != posRacing && ref != 0 && ok && e.Value == vS && e.RefreshableAtNano != ref {
		out.violation = fmt.Sprintf("the load that was in flight when the key was written (%s) failed afterwards, and the refresh time of the written entry moved from %d to %d: the failure of a superseded load was applied (RefreshAfterReloadFailure) to an entry it was not reloading",
			writeKindNames[s.Write], ref, e.RefreshableAtNano)
		return
	}
	if wantPresent && (!ok || e.Value != wantV) {
		out.violation = fmt.Sprintf("after %s the key should hold %d but holds (%d, present=%v)", writeKindNames[s.Write], wantV, e.Value, ok)
	}
	if !wantPresent && ok {
		out.violation = fmt.Sprintf("after %s the key should be absent but holds %d", writeKindNames[s.Write], e.Value)
	}
	return
}

type scenLoader struct {
	fn func() (int, error)
}

func (l scenLoader) Load(ctx context.Context, key int) (int, error)        { return l.fn() }
func (l scenLoader) Reload(ctx context.Context, key, old int) (int, error) { return l.fn() }
func (l scenLoader) BulkLoad(ctx context.Context, keys []int) (map[int]int, error) {
	v, err := l.fn()
	if errors.Is(err, otter.ErrNotFound) {
		return map[int]int{}, nil // a bulk loader reports not-found by not supplying the key
	}
	m := map[int]int{}
	for _, k := range keys {
		m[k] = v
	}
	return m, err
}

func (l scenLoader) BulkReload(ctx context.Context, keys, olds []int) (map[int]int, error) {
	return l.BulkLoad(ctx, keys)
}

// witnessD8 is the deterministic scenario of the known finding: a Set is parked inside its
// Weigher (so it has provably not published yet), a Get misses, loads and queues behind the
// bucket lock; after the Set is released the finishing load installs over it.
func witnessD8() (violation string, inconclusive string) {
	const k, vS, vL = 0, 222, 333
	inWeigher := make(chan struct{}, 1)
	relWeigher := make(chan struct{})
	var parked atomic.Bool
	o := &otter.Options[int, int]{
		MaximumWeight: 100,
		Weigher: func(key, v int) uint32 {
			if v == vS && parked.CompareAndSwap(false, true) {
				inWeigher <- struct{}{}
				<-relWeigher
			}
			return 1
		},
		Executor: func(fn func()) { fn() },
	}
	c, err := otter.New(o)
	if err != nil {
		return "", err.Error()
	}
	defer c.StopAllGoroutines()
	setDone := make(chan struct{})
	go func() {
		defer close(setDone)
		c.Set(k, vS)
	}()
	select {
	case <-inWeigher:
	case <-time.After(10 * time.Second):
		return "", "the weigher was not reached"
	}
	loaderDone := make(chan struct{})
	getDone := make(chan struct{})
	go func() {
		defer close(getDone)
		c.Get(context.Background(), k, otter.LoaderFunc[int, int](func(ctx context.Context, key int) (int, error) {
			defer close(loaderDone)
			return vL, nil
		}))
	}()
	select {
	case <-loaderDone:
	case <-time.After(10 * time.Second):
		close(relWeigher)
		return "", "the loader was not entered while the Set was parked"
	}
	time.Sleep(200 * time.Microsecond) // let the finishing load queue behind the bucket lock
	close(relWeigher)
	<-setDone
	select {
	case <-getDone:
	case <-time.After(180 * time.Second):
		return "the loading Get did not return", ""
	}
	if e, ok := c.GetEntryQuietly(k); ok && e.Value == vL {
		return fmt.Sprintf("Set(%d,%d) was still inside its Weigher (not yet published) when the load of the key started; after both returned the cache holds the loaded value %d instead of the explicit write", k, vS, vL), ""
	}
	return "", ""
}

// stressC09: writers fire only while a loader for their key is inside.
type c09Stress struct {
	Seed      uint64 `json:"seed"`
	Keys      int    `json:"keys"`
	G         int    `json:"loaders"`
	W         int    `json:"writers"`
	Ops       int    `json:"ops"`
	DelayPerM int    `json:"delay_per_mille"`
	Max       int    `json:"max"`
}

type c09Load struct {
	Key   int   `json:"key"`
	Val   int   `json:"val"`
	Enter int64 `json:"enter"`
}

type c09Write struct {
	Key  int    `json:"key"`
	Kind string `json:"kind"`
	Val  int    `json:"val"`
	Call int64  `json:"call"`
	Ret  int64  `json:"ret"`
}

type c09Obs struct {
	Key  int    `json:"key"`
	Val  int    `json:"val"`
	At   int64  `json:"at"` // call time of the read / entry time of the atomic handler / end
	What string `json:"what"`
}

func runC09Stress(cfg c09Stress) (violation string, loads, writes, cancelled int, hist any) {
	base := time.Now()
	now := func() int64 { return int64(time.Since(base)) }
	var mu sync.Mutex
	var ls []c09Load
	var ws []c09Write
	var obs []c09Obs
	inside := make([]atomic.Int32, cfg.Keys)
	var valCtr atomic.Int64
	var rctr atomic.Uint64
	var wg sync.WaitGroup
	o := &otter.Options[int, int]{Logger: &otter.NoopLogger{}}
	if cfg.Max > 0 {
		o.MaximumSize = cfg.Max
	}
	o.Executor = func(fn func()) {
		wg.Add(1)
		go func() {
			defer wg.Done()
			fn()
		}()
	}
	o.OnAtomicDeletion = func(e otter.DeletionEvent[int, int]) {
		ts := now()
		mu.Lock()
		obs = append(obs, c09Obs{Key: e.Key, Val: e.Value, At: ts, What: "removed (" + e.Cause.String() + ")"})
		mu.Unlock()
	}
	c, err := otter.New(o)
	if err != nil {
		return "", 0, 0, 0, nil
	}
	defer c.StopAllGoroutines()
	otter.VerifSetHook(func(site int) {
		if cfg.DelayPerM == 0 {
			return
		}
		r := core.Mix(cfg.Seed ^ rctr.Add(1))
		if int(r%1000) < cfg.DelayPerM {
			if (r>>20)%2 == 0 {
				runtime.Gosched()
			} else {
				time.Sleep(time.Duration((r>>24)%20+1) * time.Microsecond)
			}
		}
	})
	defer otter.VerifSetHook(nil)
	ctx := context.Background()
	var stop atomic.Bool
	var lw, ww sync.WaitGroup
	for g := 0; g < cfg.G; g++ {
		lw.Add(1)
		go func(g int) {
			defer lw.Done()
			rng := core.NewRng(core.Derive(cfg.Seed, 1, uint64(g)))
			for i := 0; i < cfg.Ops; i++ {
				k := rng.Intn(cfg.Keys)
				if rng.Chance(1, 3) {
					at := now()
					if v, ok := c.GetIfPresent(k); ok {
						mu.Lock()
						obs = append(obs, c09Obs{Key: k, Val: v, At: at, What: "read"})
						mu.Unlock()
					}
					continue
				}
				c.Get(ctx, k, otter.LoaderFunc[int, int](func(ctx context.Context, key int) (int, error) {
					v := int(7_000_000_000 + valCtr.Add(1))
					mu.Lock()
					ls = append(ls, c09Load{Key: key, Val: v, Enter: now()})
					mu.Unlock()
					inside[key].Add(1)
					for j := 0; j < 1+rng.Intn(6); j++ {
						runtime.Gosched()
					}
					if rng.Chance(1, 3) {
						time.Sleep(time.Duration(rng.Intn(40)) * time.Microsecond)
					}
					inside[key].Add(-1)
					return v, nil
				}))
				if rng.Chance(1, 2) {
					c.Invalidate(k) // make room for the next load (recorded as a write)
					// not recorded: it is called after the load returned, so it constrains nothing
				}
				progress.Add(1)
			}
		}(g)
	}
	for w := 0; w < cfg.W; w++ {
		ww.Add(1)
		go func(w int) {
			defer ww.Done()
			rng := core.NewRng(core.Derive(cfg.Seed, 2, uint64(w)))
			ctr := 0
			for !stop.Load() {
				k := rng.Intn(cfg.Keys)
				if inside[k].Load() == 0 {
					runtime.Gosched()
					continue
				}
				ctr++
				wr := c09Write{Key: k, Val: (w+1)*10_000_000 + ctr}
				switch rng.Intn(4) {
				case 0, 1:
					wr.Kind = "Set"
					wr.Call = now()
					c.Set(k, wr.Val)
				case 2:
					wr.Kind = "Invalidate"
					wr.Call = now()
					c.Invalidate(k)
				default:
					wr.Kind = "Compute(write)"
					wr.Call = now()
					c.Compute(k, func(old int, found bool) (int, otter.ComputeOp) { return wr.Val, otter.WriteOp })
				}
				wr.Ret = now()
				mu.Lock()
				ws = append(ws, wr)
				mu.Unlock()
			}
		}(w)
	}
	lw.Wait()
	stop.Store(true)
	ww.Wait()
	wg.Wait()
	end := now()
	for k := 0; k < cfg.Keys; k++ {
		if e, ok := c.GetEntryQuietly(k); ok {
			obs = append(obs, c09Obs{Key: k, Val: e.Value, At: end, What: "final"})
		}
	}
	loadOf := map[int]c09Load{}
	for _, l := range ls {
		loadOf[l.Val] = l
	}
	seen := map[int]bool{}
	for _, ob := range obs {
		seen[ob.Val] = true
		l, isLoad := loadOf[ob.Val]
		if !isLoad {
			continue
		}
		for _, w := range ws {
			if w.Key == l.Key && w.Call > l.Enter && w.Ret < ob.At {
				return fmt.Sprintf("loaded value %d of key %d (loader entered at %d) was observed as current (%s at %d) after %s [%d,%d] had been called after the loader entry and had returned",
					ob.Val, l.Key, l.Enter, ob.What, ob.At, w.Kind, w.Call, w.Ret), len(ls), len(ws), 0, map[string]any{"loads": ls, "writes": ws, "observations": obs}
			}
		}
	}
	for _, l := range ls {
		if !seen[l.Val] {
			cancelled++
		}
	}
	return "", len(ls), len(ws), cancelled, nil
}

// RunC09 runs the scenarios of one shard.
func RunC09(col *core.Collector, tier, variant string, seed uint64, shard, nshards int, replayDir, outBase string) {
	col.Note("rule: enumerated scenarios (load kind x write kind x write position, loader and the load.beforeInstall yield point used as control points) plus jittered stress in which writers fire only while a loader for their key is inside; non-trivial = the write was effective and was called after the loader entry (scenario) / at least one load was discarded by a write (stress); distinct = scenario tuple + repetition / hash of the stress history")
	reps := 8
	stressN := 1500
	if tier == "thorough" {
		reps = 120
		stressN = 40000
	}
	if variant != "plain" {
		reps = max(1, reps/3)
		stressN /= 3
	}
	dumpPath := filepath.Join(replayDir, fmt.Sprintf("C09-stall-%s-%d.txt", variant, shard))
	wd := StartWatchdog(60*time.Second, dumpPath, func(dump string) {
		col.Violation(core.Violation{Property: "C09", Signature: "stall", Detail: "no progress for 60 s: " + firstFrames(dump), Replay: dumpPath})
		col.Write(outBase)
		os.Exit(0)
	})
	_ = wd
	idx := 0
	for rep := 0; rep < reps; rep++ {
		for l := 0; l < numLoadKinds; l++ {
			for w := 0; w < numWriteKinds; w++ {
				for p := 0; p < numPos; p++ {
					for ex := 0; ex < 6; ex++ {
						idx++
						if idx%nshards != shard {
							continue
						}
						s := scenario{Load: l, Write: w, Pos: p, Exec: ex % 2, Rep: rep, NotFound: ex/2 == 1, Fail: ex/2 == 2, Prelude: rep % 4, Expire: (rep/4)%2 == 1 && p != posRacing}
						out := runScenario(s)
						col.Eval(1)
						progress.Add(1)
						col.Count("scenario."+loadKindNames[l], 1)
						if out.inconclusive != "" {
							col.Count("scenario_inconclusive", 1)
							continue
						}
						if out.effective {
							col.NonTrivial(core.HashJSON(s))
							col.Count("scenario_effective_write", 1)
						}
						if col.NumSamples() < 2 && out.effective {
							col.Sample(map[string]any{"scenario": s.String()})
						}
						if out.violation != "" {
							path := filepath.Join(replayDir, fmt.Sprintf("C09-scenario-%x.json", core.HashJSON(s)))
							data, _ := json.MarshalIndent(map[string]any{"engine": "c09-scenario", "scenario": s, "readable": s.String(), "violation": out.violation}, "", " ")
							os.WriteFile(path, data, 0o644)
							col.Violation(core.Violation{Property: "C09", Signature: "c09:" + sigText(loadKindNames[l]+" "+writeKindNames[w]), Detail: s.String() + ": " + out.violation, Replay: path})
						}
					}
				}
			}
		}
	}
	// straddle scenarios: the writer is parked in one of its callbacks (before publication) while the load starts
	sidx := 0
	sreps := 1
	if tier == "thorough" {
		sreps = 20
	}
	for rep := 0; rep < sreps; rep++ {
		for l := 0; l < numLoadKinds; l++ {
			for w := 0; w < numWriteKinds; w++ {
				if w == wkInvalidateAll {
					continue
				}
				for pk := 0; pk < numParkSites; pk++ {
					for ex := 0; ex < 8; ex++ {
						if ex >= 4 && pk != parkRefresh && pk != parkAtomicHandler {
							continue // (these park sites come with a policy that retires replaced nodes anyway)
						}
						sidx++
						if sidx%nshards != shard {
							continue
						}
						if l == lkGetExpired && ex%2 == 0 {
							continue // with a same-goroutine executor the Get first runs the sweep, which needs the bucket lock
						}
						s := straddle{Load: l, Write: w, Park: pk, Exec: ex % 2, NotFound: ex%4 >= 2, Bounded: ex >= 4}
						wd.Arm()
						v, inc, skipped := runStraddle(s)
						wd.Disarm()
						col.Eval(1)
						progress.Add(1)
						switch {
						case skipped:
							col.Count("straddle_not_applicable", 1)
						case inc != "":
							col.Count("straddle_inconclusive", 1)
						default:
							col.Count("straddle_judged", 1)
							col.Count("straddle."+parkNames[pk], 1)
							col.NonTrivial(core.HashJSON(s) + uint64(rep))
						}
						if v != "" {
							path := filepath.Join(replayDir, fmt.Sprintf("C09-straddle-%x.json", core.HashJSON(s)))
							data, _ := json.MarshalIndent(map[string]any{"engine": "c09-straddle", "scenario": s, "readable": s.String(), "violation": v}, "", " ")
							os.WriteFile(path, data, 0o644)
							col.Violation(core.Violation{Property: "C09", Signature: "c09-straddle:" + sigText(writeKindNames[w]+" in "+parkNames[pk]), Detail: s.String() + ": " + v, Replay: path})
						}
					}
				}
			}
		}
	}
	// the deterministic witness of defect D8 (repaired), the first member of the straddle family
	if shard == 0 {
		v, inc := witnessD8()
		col.Eval(1)
		if inc != "" {
			col.Inconclusive("D8 witness: " + inc)
		}
		if v != "" {
			path := filepath.Join(replayDir, "C09-witness-set-straddles-load-start.json")
			data, _ := json.MarshalIndent(map[string]any{"engine": "c09-witness", "violation": v}, "", " ")
			os.WriteFile(path, data, 0o644)
			col.Violation(core.Violation{Property: "C09", Signature: "c09-witness:set-parked-in-weigher-straddles-load-start", Detail: v, Replay: path})
		}
	}
	for i := shard; i < stressN; i += nshards {
		r := core.NewRng(core.Derive(seed, core.StrLabel("C09stress"), core.StrLabel(variant), uint64(i)))
		cfg := c09Stress{Seed: r.U64(), Keys: 1 + r.Intn(4), G: 1 + r.Intn(5), W: 1 + r.Intn(4), Ops: 10 + r.Intn(40), DelayPerM: []int{0, 50, 200}[r.Intn(3)]}
		if r.Chance(1, 4) {
			cfg.Max = 1 + r.Intn(3)
		}
		wd.Arm()
		v, loads, writes, cancelled, hist := runC09Stress(cfg)
		wd.Disarm()
		col.Eval(1)
		col.Count("stress.loads", int64(loads))
		col.Count("stress.writes_during_load", int64(writes))
		col.Count("stress.loads_never_observed", int64(cancelled))
		if cancelled >= 1 && writes >= 1 {
			col.NonTrivial(core.HashJSON(cfg))
		}
		if v != "" {
			path := filepath.Join(replayDir, fmt.Sprintf("C09-stress-%x.json", core.HashJSON(cfg)))
			data, _ := json.MarshalIndent(map[string]any{"engine": "c09-stress", "stress": cfg, "violation": v, "history": hist}, "", " ")
			os.WriteFile(path, data, 0o644)
			col.Violation(core.Violation{Property: "C09", Signature: "c09-stress:loaded_value_current_after_later_write", Detail: v + fmt.Sprintf(" (stress %+v)", cfg), Replay: path})
			break
		}
	}
}
