package conc

import (
	"fmt"

	"github.com/maypok86/otter/v2"

	"otterverif/internal/core"
)

// ---- C18: eviction passes followed in lock step ----------------------------------------------------
//
// "A new arrival displaces the policy's victim only if its estimate is strictly greater, apart from
// the documented rare random admission of candidates with an estimate of at least 6."
//
// A real policy (unit weights, injected random word) is driven through insertions, reads, removals,
// batches of insertions applied by one pass, and shrinking maxima. Before every eviction pass the
// three queues and the limits are read; the pass returns the keys it evicted in order. passRef walks
// the documented procedure (window overflow becomes candidates; victims from the probation head;
// candidate and victim meet pairwise) and consumes the real eviction sequence: where the procedure
// leaves no choice the real eviction must be the forced one (otherwise the pass is structurally
// different from the documented one and nothing is judged: `diverged`); where candidate and victim
// meet, an evicted victim must have faced a candidate with a strictly greater estimate (or the random
// admission must have applied).

type passRef struct {
	window, probation, protected []int
	maximum, windowMax           uint64
	size, windowSize             uint64
	w                            map[int]uint64 // weights (nil: every entry weighs 1)
}

func (s *passRef) weight(k int) uint64 {
	if s.w == nil {
		return 1
	}
	return s.w[k]
}

func without(q []int, k int) []int {
	for i, x := range q {
		if x == k {
			return append(append([]int(nil), q[:i]...), q[i+1:]...)
		}
	}
	return q
}

func nextIn(q []int, k int) (int, bool) {
	for i, x := range q {
		if x == k {
			if i+1 < len(q) {
				return q[i+1], true
			}
			return 0, false
		}
	}
	return 0, false
}

type passStats struct {
	comparisons, admitted, rejected, forced, randomAdmissions int64
	diverged                                                  bool
}

// follow consumes the eviction sequence of one pass. freq gives the estimates at the start of the pass.
func (s *passRef) follow(evicted []int, freq func(int) uint64, word uint32) (violation string, st passStats) {
	const none = -1 << 62
	pos := 0
	take := func() (int, bool) {
		if pos >= len(evicted) {
			return 0, false
		}
		pos++
		return evicted[pos-1], true
	}
	// evictFromWindow
	first := none
	for i := 0; s.windowSize > s.windowMax && i < len(s.window); {
		n := s.window[i]
		if s.weight(n) == 0 {
			i++ // entries of weight zero stay where they are
			continue
		}
		s.window = append(append([]int(nil), s.window[:i]...), s.window[i+1:]...)
		s.probation = append(s.probation, n)
		if first == none {
			first = n
		}
		s.windowSize -= s.weight(n)
	}
	// evictFromMain
	const (
		qProbation = iota
		qProtected
		qWindow
	)
	queue := func(q int) []int {
		switch q {
		case qProbation:
			return s.probation
		case qProtected:
			return s.protected
		}
		return s.window
	}
	victimQueue, candidateQueue := qProbation, qProbation
	victim, candidate := none, first
	if len(s.probation) > 0 {
		victim = s.probation[0]
	}
	next := func(q int, k int) int {
		if n, ok := nextIn(queue(q), k); ok {
			return n
		}
		return none
	}
	remove := func(k int) {
		inWindow := false
		for _, x := range s.window {
			if x == k {
				inWindow = true
			}
		}
		if inWindow {
			s.windowSize -= s.weight(k)
		}
		s.window, s.probation, s.protected = without(s.window, k), without(s.probation, k), without(s.protected, k)
		s.size -= s.weight(k)
	}
	for s.size > s.maximum {
		if candidate == none && candidateQueue == qProbation {
			candidate = none
			if len(s.window) > 0 {
				candidate = s.window[0]
			}
			candidateQueue = qWindow
		}
		if candidate == none && victim == none {
			if victimQueue == qProbation {
				victim = none
				if len(s.protected) > 0 {
					victim = s.protected[0]
				}
				victimQueue = qProtected
				continue
			} else if victimQueue == qProtected {
				victim = none
				if len(s.window) > 0 {
					victim = s.window[0]
				}
				victimQueue = qWindow
				continue
			}
			break
		}
		// entries of weight zero are skipped, never evicted for size
		if victim != none && s.weight(victim) == 0 {
			victim = next(victimQueue, victim)
			continue
		} else if candidate != none && s.weight(candidate) == 0 {
			candidate = next(candidateQueue, candidate)
			continue
		}
		x, ok := take()
		if !ok {
			st.diverged = true // the real pass stopped while the documented one still evicts
			return "", st
		}
		switch {
		case victim != none && candidate != none && candidate != victim && s.weight(candidate) > s.maximum:
			// a candidate that alone exceeds the maximum leaves at once
			if x != candidate {
				st.diverged = true
				return "", st
			}
			st.forced++
			nc := next(candidateQueue, candidate)
			if victim == candidate {
				victim = next(victimQueue, victim)
			}
			remove(candidate)
			candidate = nc
		case victim == none:
			if x != candidate {
				st.diverged = true
				return "", st
			}
			st.forced++
			nc := next(candidateQueue, candidate)
			remove(candidate)
			candidate = nc
		case candidate == none:
			if x != victim {
				st.diverged = true
				return "", st
			}
			st.forced++
			nv := next(victimQueue, victim)
			remove(victim)
			victim = nv
		case candidate == victim:
			if x != candidate {
				st.diverged = true
				return "", st
			}
			st.forced++
			nv := next(victimQueue, victim)
			remove(candidate)
			victim, candidate = nv, none
		default:
			cf, vf := freq(candidate), freq(victim)
			st.comparisons++
			nv, nc := next(victimQueue, victim), next(candidateQueue, candidate)
			switch x {
			case victim:
				random := cf >= 6 && word&127 == 0
				if !(cf > vf) && !random {
					return fmt.Sprintf("the policy's victim %d (estimate %d) was evicted in favour of the new arrival %d whose estimate is %d, not strictly greater (random word %#x: no random admission; maximum %d, eviction %d of the pass)",
						victim, vf, candidate, cf, word, s.maximum, pos), st
				}
				if !(cf > vf) {
					st.randomAdmissions++
				}
				st.admitted++
				if nc == victim {
					nc = next(candidateQueue, victim)
				}
				remove(victim)
				victim, candidate = nv, nc
			case candidate:
				st.rejected++
				if nv == candidate {
					nv = next(victimQueue, candidate)
				}
				remove(candidate)
				candidate = nc
				_ = nv
			default:
				st.diverged = true
				return "", st
			}
		}
	}
	if pos != len(evicted) {
		st.diverged = true
	}
	return "", st
}

// runPolicyPasses drives one policy and follows every eviction pass.
func runPolicyPasses(seed uint64) (violation string, total passStats, passes, multi int64) {
	var recordViolation string
	r := core.NewRng(seed)
	maximum := uint64(8 + r.Intn(600))
	weighted := r.Chance(1, 3)
	p := otter.VerifNewPolicyWithMaximum(maximum)
	if weighted {
		maximum = uint64(20 + r.Intn(2000))
		p = otter.VerifNewWeightedPolicy(maximum)
	}
	weightFor := func() uint32 {
		if !weighted {
			return 1
		}
		switch x := r.Intn(40); {
		case x < 4:
			return 0
		case x < 5:
			return uint32(maximum) + 1 + uint32(r.Intn(5)) // alone exceeds the maximum
		case x < 8:
			return uint32(1 + r.Intn(int(maximum/4)+1))
		}
		return uint32(1 + r.Intn(6))
	}
	insert := func(k int) {
		w := weightFor()
		// sometimes the entry is read before its insertion is applied (reads are drained first): every
		// recording counts, whether or not the policy already links the entry
		touches := 0
		if r.Chance(1, 6) {
			touches = 1 + r.Intn(12)
		}
		size, sample := p.SketchCounters()
		enabled := p.SketchEnabled()
		for t := 0; t < touches; t++ {
			p.TouchUnapplied(k, w)
		}
		// sometimes the key was written several times before the events were drained: the earlier nodes are
		// already replaced when their insertion events are applied - each of them is still an arrival
		replaced := 0
		if touches == 0 && r.Chance(1, 8) {
			replaced = 1 + r.Intn(4)
			for t := 0; t < replaced; t++ {
				p.InsertReplaced(k, w)
			}
		}
		if weighted {
			p.InsertWeighted(k, w)
		} else {
			p.Insert(k)
		}
		_, sampleAfter := p.SketchCounters()
		// (an insertion may grow the sketch, which starts a new period: then nothing is owed)
		if replaced > 0 && enabled && sampleAfter == sample && size+uint64(replaced)+1 < sample {
			if f := p.Frequency(k); f < uint64(min(replaced+1, 15)) {
				recordViolation = fmt.Sprintf("key %d was written %d times before its events were drained (%d insertions of already replaced nodes, then the live one): %d arrivals within one sampling period (%d of %d recordings so far), but its estimate is %d", k, replaced+1, replaced, replaced+1, size, sample, f)
			}
		}
		if touches > 0 && enabled && sampleAfter == sample && size+uint64(touches)+1 < sample {
			if f := p.Frequency(k); f < uint64(min(touches+1, 15)) {
				recordViolation = fmt.Sprintf("key %d was read %d times before its insertion was applied and then inserted: %d recordings within one sampling period (%d of %d recordings so far), but its estimate is %d", k, touches, touches+1, size, sample, f)
			}
		}
	}
	resident := map[int]bool{}
	var keys []int
	nextKey := 1
	pick := func() int { return keys[r.Intn(len(keys))] }
	pass := func() string {
		w, pb, pt := p.Queues()
		mx, wmx, sz, wsz := p.Limits()
		ref := &passRef{window: w, probation: pb, protected: pt, maximum: mx, windowMax: wmx, size: sz, windowSize: wsz}
		if weighted {
			ref.w = map[int]uint64{}
			for _, q := range [][]int{w, pb, pt} {
				for _, k := range q {
					ref.w[k] = uint64(p.WeightOf(k))
				}
			}
		}
		var sumAll, sumWin uint64
		for _, q := range [][]int{w, pb, pt} {
			for _, k := range q {
				sumAll += ref.weight(k)
			}
		}
		for _, k := range w {
			sumWin += ref.weight(k)
		}
		if sumAll != sz || sumWin != wsz {
			return "" // sizes and queues disagree (not this check's business): nothing to follow
		}
		if recordViolation != "" {
			return recordViolation
		}
		freqs := map[int]uint64{}
		for _, q := range [][]int{w, pb, pt} {
			for _, k := range q {
				freqs[k] = p.Frequency(k)
			}
		}
		word := uint32(r.U64())
		if r.Chance(1, 3) {
			word &^= 127 // random admission applies
		}
		ev := p.Evict(word)
		for _, k := range ev {
			delete(resident, k)
		}
		v, st := ref.follow(ev, func(k int) uint64 { return freqs[k] }, word)
		passes++
		if st.comparisons >= 2 {
			multi++
		}
		total.comparisons += st.comparisons
		total.admitted += st.admitted
		total.rejected += st.rejected
		total.forced += st.forced
		total.randomAdmissions += st.randomAdmissions
		if st.diverged {
			total.diverged = true
		}
		return v
	}
	rebuild := func() {
		keys = keys[:0]
		w, pb, pt := p.Queues()
		for _, q := range [][]int{w, pb, pt} {
			keys = append(keys, q...)
		}
	}
	steps := 300 + r.Intn(1500)
	for i := 0; i < steps; i++ {
		switch x := r.Intn(20); {
		case x < 9 || len(resident) == 0: // one insertion, one pass (the common case)
			k := nextKey
			nextKey++
			insert(k)
			resident[k] = true
			if v := pass(); v != "" {
				return v, total, passes, multi
			}
		case x < 15: // reads
			rebuild()
			if len(keys) == 0 {
				continue
			}
			hot := pick()
			for j := 0; j < 1+r.Intn(12); j++ {
				if r.Chance(1, 2) {
					p.Touch(hot)
				} else {
					p.Touch(pick())
				}
			}
		case x < 16: // removal
			rebuild()
			if len(keys) > 0 {
				k := pick()
				p.Remove(k)
				delete(resident, k)
			}
		case x < 19: // a batch of insertions applied by one pass; some arrivals are hot
			n := 2 + r.Intn(12)
			for j := 0; j < n; j++ {
				k := nextKey
				nextKey++
				insert(k)
				resident[k] = true
				if r.Chance(1, 3) {
					for t := 0; t < 2+r.Intn(10); t++ {
						p.Touch(k)
					}
				}
			}
			if v := pass(); v != "" {
				return v, total, passes, multi
			}
		default: // the maximum shrinks (or grows back)
			_, _, sz, _ := p.Limits()
			nm := uint64(4 + r.Intn(int(maximum)))
			if r.Chance(1, 2) && sz > 8 {
				nm = sz/2 + uint64(r.Intn(int(sz/2)))
			}
			_, sampleBefore := p.SketchCounters()
			p.SetMaximum(nm)
			if _, sampleAfter := p.SketchCounters(); weighted && sampleAfter != sampleBefore {
				// the sketch of a weighted policy is sized by the number of entries (policy.add), never by the
				// weight bound: a new bound must not rebuild it - that drops every estimate of the running period
				return fmt.Sprintf("SetMaximum(%d) on a weighted policy rebuilt the frequency sketch (sampling period %d -> %d recordings): the estimates of the running period are dropped although no entry count asked for a larger table", nm, sampleBefore, sampleAfter), total, passes, multi
			}
			if v := pass(); v != "" {
				return v, total, passes, multi
			}
		}
	}
	return "", total, passes, multi
}
