package conc

import (
	"fmt"

	"github.com/maypok86/otter/v2"

	"otterverif/internal/core"
)

// ---- C18: eviction passes followed in lock step ----------------------------------------------------
//
// "A new arrival displaces the policy's victim only if its estimate is strictly greater, apart from
// the documented rare random admission of candidates with an estimate of at least 6."
//
// A real policy (unit weights, injected random word) is driven through insertions, reads, removals,
// batches of insertions applied by one pass, and shrinking maxima. Before every eviction pass the
// three queues and the limits are read; the pass returns the keys it evicted in order. passRef walks
// the documented procedure (window overflow becomes candidates; victims from the probation head;
// candidate and victim meet pairwise) and consumes the real eviction sequence: where the procedure
// leaves no choice the real eviction must be the forced one (otherwise the pass is structurally
// different from the documented one and nothing is judged: `diverged`); where candidate and victim
// meet, an evicted victim must have faced a candidate with a strictly greater estimate (or the random
// admission must have applied).

type passRef struct {
	window, probation, protected []int
	maximum, windowMax           uint64
	size, windowSize             uint64
}

func without(q []int, k int) []int {
	for i, x := range q {
		if x == k {
			return append(append([]int(nil), q[:i]...), q[i+1:]...)
		}
	}
	return q
}

func nextIn(q []int, k int) (int, bool) {
	for i, x := range q {
		if x == k {
			if i+1 < len(q) {
				return q[i+1], true
			}
			return 0, false
		}
	}
	return 0, false
}

type passStats struct {
	comparisons, admitted, rejected, forced, randomAdmissions int64
	diverged                                                    bool
}

// follow consumes the eviction sequence of one pass. freq gives the estimates at the start of the pass.
func (s *passRef) follow(evicted []int, freq func(int) uint64, word uint32) (violation string, st passStats) {
	const none = -1 << 62
	pos := 0
	take := func() (int, bool) {
		if pos >= len(evicted) {
			return 0, false
		}
		pos++
		return evicted[pos-1], true
	}
	// evictFromWindow
	first := none
	for s.windowSize > s.windowMax && len(s.window) > 0 {
		n := s.window[0]
		s.window = s.window[1:]
		s.probation = append(s.probation, n)
		if first == none {
			first = n
		}
		s.windowSize--
	}
	// evictFromMain
	const (
		qProbation = iota
		qProtected
		qWindow
	)
	queue := func(q int) []int {
		switch q {
		case qProbation:
			return s.probation
		case qProtected:
			return s.protected
		}
		return s.window
	}
	victimQueue, candidateQueue := qProbation, qProbation
	victim, candidate := none, first
	if len(s.probation) > 0 {
		victim = s.probation[0]
	}
	next := func(q int, k int) int {
		if n, ok := nextIn(queue(q), k); ok {
			return n
		}
		return none
	}
	remove := func(k int) {
		inWindow := false
		for _, x := range s.window {
			if x == k {
				inWindow = true
			}
		}
		if inWindow {
			s.windowSize--
		}
		s.window, s.probation, s.protected = without(s.window, k), without(s.probation, k), without(s.protected, k)
		s.size--
	}
	for s.size > s.maximum {
		if candidate == none && candidateQueue == qProbation {
			candidate = none
			if len(s.window) > 0 {
				candidate = s.window[0]
			}
			candidateQueue = qWindow
		}
		if candidate == none && victim == none {
			if victimQueue == qProbation {
				victim = none
				if len(s.protected) > 0 {
					victim = s.protected[0]
				}
				victimQueue = qProtected
				continue
			} else if victimQueue == qProtected {
				victim = none
				if len(s.window) > 0 {
					victim = s.window[0]
				}
				victimQueue = qWindow
				continue
			}
			break
		}
		x, ok := take()
		if !ok {
			st.diverged = true // the real pass stopped while the documented one still evicts
			return "", st
		}
		switch {
		case victim == none:
			if x != candidate {
				st.diverged = true
				return "", st
			}
			st.forced++
			nc := next(candidateQueue, candidate)
			remove(candidate)
			candidate = nc
		case candidate == none:
			if x != victim {
				st.diverged = true
				return "", st
			}
			st.forced++
			nv := next(victimQueue, victim)
			remove(victim)
			victim = nv
		case candidate == victim:
			if x != candidate {
				st.diverged = true
				return "", st
			}
			st.forced++
			nv := next(victimQueue, victim)
			remove(candidate)
			victim, candidate = nv, none
		default:
			cf, vf := freq(candidate), freq(victim)
			st.comparisons++
			nv, nc := next(victimQueue, victim), next(candidateQueue, candidate)
			switch x {
			case victim:
				random := cf >= 6 && word&127 == 0
				if !(cf > vf) && !random {
					return fmt.Sprintf("the policy's victim %d (estimate %d) was evicted in favour of the new arrival %d whose estimate is %d, not strictly greater (random word %#x: no random admission; maximum %d, eviction %d of the pass)",
						victim, vf, candidate, cf, word, s.maximum, pos), st
				}
				if !(cf > vf) {
					st.randomAdmissions++
				}
				st.admitted++
				if nc == victim {
					nc = next(candidateQueue, victim)
				}
				remove(victim)
				victim, candidate = nv, nc
			case candidate:
				st.rejected++
				if nv == candidate {
					nv = next(victimQueue, candidate)
				}
				remove(candidate)
				candidate = nc
				_ = nv
			default:
				st.diverged = true
				return "", st
			}
		}
	}
	if pos != len(evicted) {
		st.diverged = true
	}
	return "", st
}

// runPolicyPasses drives one policy and follows every eviction pass.
func runPolicyPasses(seed uint64) (violation string, total passStats, passes, multi int64) {
	r := core.NewRng(seed)
	maximum := uint64(8 + r.Intn(600))
	p := otter.VerifNewPolicyWithMaximum(maximum)
	resident := map[int]bool{}
	var keys []int
	nextKey := 1
	pick := func() int { return keys[r.Intn(len(keys))] }
	pass := func() string {
		w, pb, pt := p.Queues()
		mx, wmx, sz, wsz := p.Limits()
		ref := &passRef{window: w, probation: pb, protected: pt, maximum: mx, windowMax: wmx, size: sz, windowSize: wsz}
		if uint64(len(w)+len(pb)+len(pt)) != sz || uint64(len(w)) != wsz {
			return "" // sizes and queues disagree (not this check's business): nothing to follow
		}
		freqs := map[int]uint64{}
		for _, q := range [][]int{w, pb, pt} {
			for _, k := range q {
				freqs[k] = p.Frequency(k)
			}
		}
		word := uint32(r.U64())
		if r.Chance(1, 3) {
			word &^= 127 // random admission applies
		}
		ev := p.Evict(word)
		for _, k := range ev {
			delete(resident, k)
		}
		v, st := ref.follow(ev, func(k int) uint64 { return freqs[k] }, word)
		passes++
		if st.comparisons >= 2 {
			multi++
		}
		total.comparisons += st.comparisons
		total.admitted += st.admitted
		total.rejected += st.rejected
		total.forced += st.forced
		total.randomAdmissions += st.randomAdmissions
		if st.diverged {
			total.diverged = true
		}
		return v
	}
	rebuild := func() {
		keys = keys[:0]
		for k := range resident {
			keys = append(keys, k)
		}
	}
	steps := 300 + r.Intn(1500)
	for i := 0; i < steps; i++ {
		switch x := r.Intn(20); {
		case x < 9 || len(resident) == 0: // one insertion, one pass (the common case)
			k := nextKey
			nextKey++
			p.Insert(k)
			resident[k] = true
			if v := pass(); v != "" {
				return v, total, passes, multi
			}
		case x < 15: // reads
			rebuild()
			if len(keys) == 0 {
				continue
			}
			hot := pick()
			for j := 0; j < 1+r.Intn(12); j++ {
				if r.Chance(1, 2) {
					p.Touch(hot)
				} else {
					p.Touch(pick())
				}
			}
		case x < 16: // removal
			rebuild()
			if len(keys) > 0 {
				k := pick()
				p.Remove(k)
				delete(resident, k)
			}
		case x < 19: // a batch of insertions applied by one pass; some arrivals are hot
			n := 2 + r.Intn(12)
			for j := 0; j < n; j++ {
				k := nextKey
				nextKey++
				p.Insert(k)
				resident[k] = true
				if r.Chance(1, 3) {
					for t := 0; t < 2+r.Intn(10); t++ {
						p.Touch(k)
					}
				}
			}
			if v := pass(); v != "" {
				return v, total, passes, multi
			}
		default: // the maximum shrinks (or grows back)
			_, _, sz, _ := p.Limits()
			nm := uint64(4 + r.Intn(int(maximum)))
			if r.Chance(1, 2) && sz > 8 {
				nm = sz/2 + uint64(r.Intn(int(sz/2)))
			}
			p.SetMaximum(nm)
			if v := pass(); v != "" {
				return v, total, passes, multi
			}
		}
	}
	return "", total, passes, multi
}
