package conc

import (
	"encoding/json"
	"fmt"
	"os"
	"path/filepath"
	"runtime"
	"sort"
	"sync"
	"sync/atomic"
	"time"

	"github.com/anishathalye/porcupine"
	"github.com/maypok86/otter/v2"

	"otterverif/internal/core"
)

// Component harnesses on the internal structures through the verif-tag wrappers.

func compHook(seed uint64, perMille int) func(site int) {
	var ctr atomic.Uint64
	// A third of the trials concentrate on one yield point: it delays in 40 % of its visits whatever
	// the general rate is, so that every site gets trials in which its window is held open often.
	focus := -1
	if h := core.Mix(seed ^ 0xf0c5); h%3 == 0 {
		focus = int((h >> 8) % uint64(len(otter.VerifSiteNames())))
	}
	return func(site int) {
		pm := perMille
		if site == focus && pm < 400 {
			pm = 400
		}
		if pm == 0 {
			return
		}
		r := core.Mix(seed ^ ctr.Add(1))
		if int(r%1000) >= pm {
			return
		}
		switch (r >> 20) % 3 {
		case 0:
			runtime.Gosched()
		case 1:
			for i := 0; i < int((r>>24)%6)+1; i++ {
				runtime.Gosched()
			}
		default:
			time.Sleep(time.Duration((r>>24)%15+1) * time.Microsecond)
		}
	}
}

func writeReplay(replayDir, name string, v any) string {
	path := filepath.Join(replayDir, name)
	data, _ := json.MarshalIndent(v, "", " ")
	os.WriteFile(path, data, 0o644)
	return path
}

// ---- C15: the table ------------------------------------------------------------------------------

type tableCfg struct {
	Seed      uint64 `json:"seed"`
	Index     int    `json:"index"`
	InitCap   int    `json:"init_cap"`
	Stable    int    `json:"stable_keys"`
	Hot       int    `json:"hot_keys"`
	Workers   int    `json:"workers"`
	Ops       int    `json:"ops"`
	Churners  int    `json:"churners"`
	ChurnKeys int    `json:"churn_keys"`
	Rounds    int    `json:"rounds"`
	Rangers   int    `json:"rangers"`
	DelayPerM int    `json:"delay_per_mille"`
	Procs     int    `json:"gomaxprocs"`          // 0 = all CPUs; the table's parallel copy splits the buckets by GOMAXPROCS
	HashMode  int    `json:"hash_mode,omitempty"` // degraded key hashes (hook VerifSetHash), see hashModes
	Stampede  bool   `json:"stampede,omitempty"`  // the churners start each round together (barrier)
}

// hashModes degrade the key hash so that few keys give long bucket chains (the bucket index is
// taken from hash>>7) and equal meta bytes (hash&0x7f) - collisions cannot be provoked through the
// keys because every table seeds its own hash.
var hashModes = []func(uint64) uint64{
	nil,
	func(h uint64) uint64 { return h&0x7f | (h>>7&3)<<7 }, // four root buckets: long chains
	func(h uint64) uint64 { return h&^0x7f | h&1 },        // two meta bytes: every lookup compares keys
	func(h uint64) uint64 { return h&1 | (h>>7&1)<<7 },    // both
	func(h uint64) uint64 { return 0x2a },                 // one chain, one meta byte
}

var hashModeNames = []string{"seeded", "4 root buckets", "2 meta bytes", "2 root buckets x 2 meta bytes", "constant"}

func setHashMode(mode int) {
	if mode <= 0 || mode >= len(hashModes) {
		otter.VerifSetHash(nil)
		return
	}
	otter.VerifSetHash(hashModes[mode])
}

const (
	stableBase = 1_000_000
	steadyBase = 3_000_000
	churnBase  = 2_000_000
)

func runTable(cfg tableCfg) (violation string, st map[string]int64, hist any) {
	st = map[string]int64{}
	setHashMode(cfg.HashMode)
	defer otter.VerifSetHash(nil)
	m := otter.VerifNewMap(cfg.InitCap)
	hook := compHook(cfg.Seed, cfg.DelayPerM)
	if cfg.Stampede {
		// whoever waited for somebody else's resize is held up for a moment before it goes on: the next resize is
		// then already under way when the waiter leaves
		waited := siteIndex("map.resize.waited")
		var ctr atomic.Uint64
		general := hook
		hook = func(site int) {
			if site == waited {
				if r := core.Mix(cfg.Seed ^ 0x77 ^ ctr.Add(1)); r%2 == 0 {
					time.Sleep(time.Duration((r>>24)%300+20) * time.Microsecond)
				}
				return
			}
			general(site)
		}
	}
	otter.VerifSetHook(hook)
	defer otter.VerifSetHook(nil)
	base := time.Now()
	now := func() int64 { return int64(time.Since(base)) }
	set := func(v int) func(int, bool) (int, int) { return func(int, bool) (int, int) { return v, 1 } }
	for i := 0; i < cfg.Stable; i++ {
		m.Compute(stableBase+i, set(stableBase+i))
	}
	var stop atomic.Bool
	var mu sync.Mutex
	fail := func(s string) {
		mu.Lock()
		if violation == "" {
			violation = s
		}
		mu.Unlock()
		stop.Store(true)
	}
	// churn bookkeeping: value = round*churnKeys*4 + slot ... unique per (key, round)
	nck := cfg.Churners * cfg.ChurnKeys
	insCall := make([]atomic.Int64, nck*cfg.Rounds)
	delRet := make([]atomic.Int64, nck*cfg.Rounds)
	var wg sync.WaitGroup
	arrived := make([]atomic.Int64, cfg.Rounds+1)
	for c := 0; c < cfg.Churners; c++ {
		wg.Add(1)
		go func(c int) {
			defer wg.Done()
			for round := 0; round < cfg.Rounds && !stop.Load(); round++ {
				if cfg.Stampede {
					// everybody starts filling at the same moment
					arrived[round].Add(1)
					for arrived[round].Load() < int64(cfg.Churners) && !stop.Load() {
						runtime.Gosched()
					}
				}
				for i := 0; i < cfg.ChurnKeys; i++ {
					slot := c*cfg.ChurnKeys + i
					id := round*nck + slot
					insCall[id].Store(now())
					if cfg.Stampede {
						// some insertions take their time inside the update function (the bucket stays locked): a
						// resize that starts meanwhile has to wait for exactly this bucket
						v := id + 1
						m.Compute(churnBase+slot, func(int, bool) (int, int) {
							switch h := core.Mix(cfg.Seed ^ uint64(v)); h % 8 {
							case 0:
								time.Sleep(time.Duration(h>>20%30+3) * time.Microsecond)
							case 1:
								runtime.Gosched()
							}
							return v, 1
						})
						progress.Add(1)
						continue
					}
					m.Compute(churnBase+slot, set(id+1))
					progress.Add(1)
				}
				for i := 0; i < cfg.ChurnKeys; i++ {
					slot := c*cfg.ChurnKeys + i
					id := round*nck + slot
					_, found := m.Compute(churnBase+slot, func(old int, ok bool) (int, int) {
						if !ok || old != id+1 {
							fail(fmt.Sprintf("churn key %d: the delete function saw (%d,%v), the key was inserted with %d and never touched by anyone else", churnBase+slot, old, ok, id+1))
						}
						return 0, 2
					})
					if found {
						fail(fmt.Sprintf("churn key %d is reported present right after its deletion", churnBase+slot))
					}
					delRet[id].Store(now())
				}
			}
		}(c)
	}
	// hot keys: recorded for porcupine
	recs := make([][]Rec, cfg.Workers)
	for w := 0; w < cfg.Workers; w++ {
		wg.Add(1)
		go func(w int) {
			defer wg.Done()
			rng := core.NewRng(core.Derive(cfg.Seed, 3, uint64(w)))
			ctr := 0
			for i := 0; i < cfg.Ops && !stop.Load(); i++ {
				r := Rec{W: w, Key: rng.Intn(cfg.Hot)}
				switch rng.Intn(10) {
				case 0, 1, 2:
					r.Kind = KGetIfPresent
					r.Call = now()
					r.RV, r.ROk = m.Get(r.Key)
					r.Ret = now()
				case 3, 4, 5, 6:
					ctr++
					r.Kind, r.Dec, r.Arg = KCompute, DecWrite, (w+1)*10_000_000+ctr
					r.Call = now()
					r.RV, r.ROk = m.Compute(r.Key, func(old int, ok bool) (int, int) {
						r.Invoked++
						r.SawOld, r.SawOk = old, ok
						return r.Arg, 1
					})
					r.Ret = now()
				case 7, 8:
					r.Kind, r.Dec = KCompute, DecInvalidate
					r.Call = now()
					r.RV, r.ROk = m.Compute(r.Key, func(old int, ok bool) (int, int) {
						r.Invoked++
						r.SawOld, r.SawOk = old, ok
						return 0, 2
					})
					r.Ret = now()
				default:
					r.Kind, r.Dec = KCompute, DecCancel
					r.Call = now()
					r.RV, r.ROk = m.Compute(r.Key, func(old int, ok bool) (int, int) {
						r.Invoked++
						r.SawOld, r.SawOk = old, ok
						return 0, 0
					})
					r.Ret = now()
				}
				if r.Kind == KCompute && r.Invoked != 1 {
					fail(fmt.Sprintf("Compute(%d) ran its function %d times", r.Key, r.Invoked))
				}
				recs[w] = append(recs[w], r)
				progress.Add(1)
				// the stable keys must always be found
				sk := stableBase + rng.Intn(cfg.Stable)
				if v, ok := m.Get(sk); !ok || v != sk {
					fail(fmt.Sprintf("stable key %d (inserted before the trial, never removed) was not found by a concurrent lookup: got (%d,%v)", sk, v, ok))
				}
			}
		}(w)
	}
	var ranges, yielded atomic.Int64
	for g := 0; g < cfg.Rangers; g++ {
		wg.Add(1)
		go func(g int) {
			defer wg.Done()
			for !stop.Load() && ranges.Load() < int64(cfg.Rangers*40) {
				t0 := now()
				seen := map[int]int{}
				bad := ""
				m.Range(func(k, v int) bool {
					seen[k]++
					yielded.Add(1)
					if k >= churnBase {
						id := v - 1
						if id < 0 || id >= len(delRet) || id%nck != k-churnBase {
							bad = fmt.Sprintf("Range yielded (%d,%d): that value was never written to that key", k, v)
							return false
						}
						if d := delRet[id].Load(); d != 0 && d < t0 {
							bad = fmt.Sprintf("Range (begun at %d) yielded (%d,%d), which had been removed at %d, before the Range began", t0, k, v, d)
							return false
						}
						if ic := insCall[id].Load(); ic == 0 {
							bad = fmt.Sprintf("Range yielded (%d,%d) before that value was inserted", k, v)
							return false
						}
					}
					return true
				})
				ranges.Add(1)
				if bad != "" {
					fail(bad)
					return
				}
				for k, n := range seen {
					if n > 1 {
						fail(fmt.Sprintf("one Range yielded key %d %d times", k, n))
						return
					}
				}
				for i := 0; i < cfg.Stable; i++ {
					if seen[stableBase+i] != 1 {
						fail(fmt.Sprintf("a Range did not yield stable key %d, which was present for its whole duration", stableBase+i))
						return
					}
				}
				progress.Add(1)
			}
		}(g)
	}
	wg.Wait()
	otter.VerifSetHook(nil)
	stats := m.Stats()
	st["growths"], st["shrinks"], st["max_chain"], st["ranges"], st["range_yields"] = stats.Growths, stats.Shrinks, int64(stats.MaxChain), ranges.Load(), yielded.Load()
	if violation != "" {
		return violation, st, recs
	}
	// quiescent size
	present := cfg.Stable
	finals := map[int]linOut{}
	for k := 0; k < cfg.Hot; k++ {
		v, ok := m.Get(k)
		finals[k] = linOut{RV: v, ROk: ok}
		if ok {
			present++
		}
	}
	if m.Size() != present {
		return fmt.Sprintf("Size()=%d at quiescence but %d keys are present", m.Size(), present), st, recs
	}
	n := 0
	m.Range(func(k, v int) bool { n++; return true })
	if n != present {
		return fmt.Sprintf("a quiescent Range yields %d keys but %d are present", n, present), st, recs
	}
	// porcupine over the hot keys
	t := &Trial{Cfg: TrialCfg{Keys: cfg.Hot, G: cfg.Workers}, Recs: recs, base: base}
	lr := t.CheckLinearizable(finals, 20*time.Second)
	st["lin_ok"], st["lin_illegal"], st["lin_unknown"], st["lin_ops"], st["lin_overlap"] = int64(lr.Ok), int64(lr.Illegal), int64(lr.Unknown), int64(lr.Ops), int64(lr.MaxOverlap)
	if lr.CallbackViolation != "" {
		return lr.CallbackViolation, st, recs
	}
	if lr.Illegal > 0 {
		return lr.Witness, st, recs
	}
	return "", st, nil
}

// clearCheck: keys inserted after Clear returned survive it, keys inserted before it was called do not.
func clearCheck(seed uint64) string {
	m := otter.VerifNewMap(0)
	rng := core.NewRng(seed)
	n := 50 + rng.Intn(2000)
	for i := 0; i < n; i++ {
		m.Compute(i, func(int, bool) (int, int) { return i + 1, 1 })
	}
	var wg sync.WaitGroup
	wg.Add(1)
	go func() {
		defer wg.Done()
		for i := 0; i < 200; i++ {
			m.Get(rng.Intn(n))
		}
	}()
	m.Clear()
	wg.Wait()
	if m.Size() != 0 {
		return fmt.Sprintf("Size()=%d after Clear of %d keys", m.Size(), n)
	}
	for i := 0; i < n; i++ {
		if v, ok := m.Get(i); ok {
			return fmt.Sprintf("key %d (value %d) is still found after Clear returned", i, v)
		}
	}
	for i := 0; i < 40; i++ {
		m.Compute(i, func(int, bool) (int, int) { return -i - 1, 1 })
	}
	for i := 0; i < 40; i++ {
		if v, ok := m.Get(i); !ok || v != -i-1 {
			return fmt.Sprintf("key %d inserted after Clear is not found", i)
		}
	}
	if m.Size() != 40 {
		return fmt.Sprintf("Size()=%d after inserting 40 keys into a cleared table", m.Size())
	}
	// Clear while other goroutines make the table grow: the keys that were present before Clear was
	// called, and that nobody writes again, must be gone when it returns.
	otter.VerifSetHook(compHook(seed, []int{0, 50, 200}[rng.Intn(3)]))
	defer otter.VerifSetHook(nil)
	for round := 0; round < 6; round++ {
		m2 := otter.VerifNewMap(0)
		old := 20 + rng.Intn(200)
		for i := 0; i < old; i++ {
			m2.Compute(i, func(int, bool) (int, int) { return i + 1, 1 })
		}
		var started, stop atomic.Bool
		var cw sync.WaitGroup
		for g := 0; g < 2; g++ {
			cw.Add(1)
			go func(g int) {
				defer cw.Done()
				for i := 0; i < 4000 && !stop.Load(); i++ {
					k := churnBase + g*100000 + i
					m2.Compute(k, func(int, bool) (int, int) { return 1, 1 })
					started.Store(true)
				}
			}(g)
		}
		for !started.Load() {
			runtime.Gosched()
		}
		for i := 0; i < rng.Intn(50); i++ {
			runtime.Gosched()
		}
		m2.Clear()
		stop.Store(true)
		cw.Wait()
		for i := 0; i < old; i++ {
			if v, ok := m2.Get(i); ok {
				return fmt.Sprintf("key %d (value %d) was present before Clear was called and is written by nobody else, but it is still found after Clear returned (other goroutines were inserting other keys, growing the table, meanwhile)", i, v)
			}
		}
		progress.Add(1)
	}
	return ""
}

// cacheClear is the cache-level clear check of C15: InvalidateAll runs while writers on other keys
// keep the write buffer busy (it holds the eviction lock, so their events pile up and it falls back
// to removing the remaining keys one by one). Every key that was present before the call and is
// touched by nobody else must be gone when it returns, and must have been reported exactly once.
func cacheClear(seed uint64, longChains bool) (violation string, cleared int64) {
	r := core.NewRng(seed)
	stable := 5000 + r.Intn(40000)
	if longChains { // degraded hash: every operation walks a chain that holds a large part of the keys
		stable = 300 + r.Intn(1500)
	}
	counts := make([]atomic.Int32, stable)
	o := &otter.Options[int, int]{
		MaximumSize: 1 << 22,
		OnDeletion: func(e otter.DeletionEvent[int, int]) {
			if e.Key >= stableBase && e.Key < stableBase+stable {
				counts[e.Key-stableBase].Add(1)
			}
		},
	}
	if r.Chance(1, 2) {
		o.Executor = func(fn func()) { fn() }
	}
	c, err := otter.New(o)
	if err != nil {
		return "cannot build: " + err.Error(), 0
	}
	defer c.StopAllGoroutines()
	for i := 0; i < stable; i++ {
		c.Set(stableBase+i, i)
	}
	c.CleanUp()
	var stop atomic.Bool
	var started, wg sync.WaitGroup
	writers := 2 + r.Intn(7)
	for w := 0; w < writers; w++ {
		wg.Add(1)
		started.Add(1)
		go func(w int) {
			defer wg.Done()
			first := true
			for i := 0; !stop.Load() && i < 400000; i++ {
				c.Set(churnBase+w*1000+i%1000, i)
				if first {
					first = false
					started.Done()
				}
				progress.Add(1)
			}
		}(w)
	}
	started.Wait()
	c.InvalidateAll()
	stop.Store(true)
	left := 0
	firstLeft := -1
	for i := 0; i < stable; i++ {
		if _, ok := c.GetEntryQuietly(stableBase + i); ok {
			left++
			if firstLeft < 0 {
				firstLeft = stableBase + i
			}
		}
	}
	wg.Wait()
	if left > 0 {
		return fmt.Sprintf("%d of %d keys that were present before InvalidateAll and are touched by nobody else are still present after it returned (first: %d); %d writers were writing other keys meanwhile", left, stable, firstLeft, writers), int64(stable)
	}
	c.CleanUp()
	time.Sleep(time.Millisecond)
	c.CleanUp()
	for i := range counts {
		if n := counts[i].Load(); n > 1 {
			return fmt.Sprintf("key %d removed by InvalidateAll was reported %d times", stableBase+i, n), int64(stable)
		}
	}
	return "", int64(stable)
}

// cacheReadBuffer is the cache-level half of C17 at the buffer's use sites: every user of the read
// buffer inside the cache must respect its single-consumer discipline. Readers record reads of present
// entries while another goroutine alternates InvalidateAll / repopulation, iterations and SetMaximum run
// (all of them drain the buffer), with an asynchronous executor. At quiescence one CleanUp must leave
// the buffer empty (everything recorded was delivered), and a read recorded afterwards must be
// delivered by the next CleanUp.
func cacheReadBuffer(seed uint64) (violation string, reads int64) {
	r := core.NewRng(seed)
	var wg sync.WaitGroup
	o := &otter.Options[int, int]{
		Executor: func(fn func()) {
			wg.Add(1)
			go func() {
				defer wg.Done()
				fn()
			}()
		},
	}
	// with an expiry policy every read is recorded; without one a bounded cache records reads only once its
	// frequency sketch is enabled (at half of the maximum): both sides of that switch must agree
	if r.Chance(1, 2) {
		o.ExpiryCalculator = otter.ExpiryWriting[int, int](time.Hour)
	}
	if o.ExpiryCalculator == nil || r.Chance(1, 2) {
		o.MaximumSize = 64 + r.Intn(1000)
	}
	c, err := otter.New(o)
	if err != nil {
		return "cannot build: " + err.Error(), 0
	}
	defer c.StopAllGoroutines()
	otter.VerifSetHook(compHook(seed, []int{0, 20, 100}[r.Intn(3)]))
	defer otter.VerifSetHook(nil)
	const keys = 64
	for k := 0; k < keys; k++ {
		c.Set(k, k)
	}
	var stop atomic.Bool
	var rd atomic.Int64
	var workers sync.WaitGroup
	readers := 2 + r.Intn(12)
	for g := 0; g < readers; g++ {
		workers.Add(1)
		go func(g int) {
			defer workers.Done()
			rng := core.NewRng(core.Derive(seed, 3, uint64(g)))
			for !stop.Load() {
				c.GetIfPresent(rng.Intn(keys))
				rd.Add(1)
				progress.Add(1)
			}
		}(g)
	}
	workers.Add(1)
	go func() {
		defer workers.Done()
		rng := core.NewRng(core.Derive(seed, 4))
		for i := 0; i < 40+rng.Intn(200); i++ {
			switch rng.Intn(6) {
			case 0, 1, 2:
				c.InvalidateAll()
				for k := 0; k < keys; k++ {
					c.Set(k, k)
				}
			case 3:
				for range c.Coldest() {
					break
				}
			case 4:
				c.CleanUp()
			default:
				c.SetMaximum(uint64(100 + rng.Intn(1000)))
			}
		}
		stop.Store(true)
	}()
	workers.Wait()
	wg.Wait()
	c.CleanUp()
	wg.Wait()
	if n := c.VerifAudit().ReadBufferLen; n != 0 {
		return fmt.Sprintf("the cache is quiescent and CleanUp ran, but the read buffer still holds %d recorded reads (%d readers read present entries while InvalidateAll, iterations and SetMaximum ran)", n, readers), rd.Load()
	}
	c.GetIfPresent(1)
	c.CleanUp()
	wg.Wait()
	if n := c.VerifAudit().ReadBufferLen; n != 0 {
		return fmt.Sprintf("a read recorded after quiescence is still in the read buffer after a CleanUp (%d reads held)", n), rd.Load()
	}
	return "", rd.Load()
}

// cacheHeldIter: an iterator value obtained from the cache judges removal and expiry when it is ranged
// over, not when it was obtained: values obtained before the clock passed the deadlines (and before some
// keys were invalidated or rewritten) are ranged over afterwards, twice.
func cacheHeldIter(seed uint64) (violation string, yields int64) {
	r := core.NewRng(seed)
	clk := &phaseClock{tick: make(chan time.Time)}
	clk.now.Store(1_000_000_000)
	ttl := time.Duration(1+r.Intn(100)) * time.Second
	o := &otter.Options[int, int]{Clock: clk, ExpiryCalculator: otter.ExpiryWriting[int, int](ttl), Executor: func(fn func()) { fn() }}
	bounded := r.Chance(1, 2)
	if bounded {
		o.MaximumSize = 1000
	}
	c, err := otter.New(o)
	if err != nil {
		return "cannot build: " + err.Error(), 0
	}
	defer c.StopAllGoroutines()
	n := 5 + r.Intn(60)
	for k := 0; k < n; k++ {
		c.Set(k, k)
	}
	all, keys, vals := c.All(), c.Keys(), c.Values()
	hot, cold := c.Hottest(), c.Coldest()
	// some keys are removed, the clock passes the deadline of the others, a few are written afresh
	gone := map[int]bool{}
	for k := 0; k < n; k++ {
		if r.Chance(1, 4) {
			c.Invalidate(k)
			gone[k] = true
		}
	}
	clk.now.Add(int64(ttl) + int64(r.Intn(3)))
	fresh := map[int]int{}
	for i := 0; i < r.Intn(6); i++ {
		k := r.Intn(n)
		fresh[k] = 1000 + i
		c.Set(k, 1000+i)
	}
	check := func(what string, got map[int]int, byValue bool) string {
		for k, v := range got {
			if fv, ok := fresh[k]; !ok || (byValue && fv != v) {
				return fmt.Sprintf("%s, obtained before the clock passed the deadlines and ranged over afterwards, yielded key %d (value %d), which had expired or been invalidated before the traversal began (written afresh since: %v)", what, k, v, fresh)
			}
		}
		if len(got) != len(fresh) {
			return fmt.Sprintf("%s yielded %d entries, %d keys were written afresh before the traversal began and must be present", what, len(got), len(fresh))
		}
		return ""
	}
	for pass := 0; pass < 2; pass++ {
		got := map[int]int{}
		for k, v := range all {
			got[k] = v
			yields++
		}
		if v := check("All()", got, true); v != "" {
			return v, yields
		}
		got = map[int]int{}
		for k := range keys {
			got[k] = fresh[k]
			yields++
		}
		if v := check("Keys()", got, false); v != "" {
			return v, yields
		}
		cnt := 0
		for range vals {
			cnt++
			yields++
		}
		if cnt != len(fresh) {
			return fmt.Sprintf("Values(), obtained before the clock passed the deadlines, yielded %d values afterwards; %d keys were written afresh", cnt, len(fresh)), yields
		}
		if bounded {
			for name, it := range map[string]func(func(otter.Entry[int, int]) bool){"Hottest()": hot, "Coldest()": cold} {
				got = map[int]int{}
				for e := range it {
					got[e.Key] = e.Value
					yields++
				}
				if v := check(name, got, true); v != "" {
					return v, yields
				}
			}
		}
	}
	return "", yields
}

// cacheIter is the cache-level half of C15: All / Keys / Values of a real cache iterate while
// writers replace and invalidate hot keys and churn grows and shrinks the table. A stable key set
// (never touched) must be yielded exactly once by every iteration; no key twice; a yielded
// (key, value) must have been written, and must not have been reported to OnDeletion before the
// iteration began (OnDeletion runs after the removal is complete).
func cacheIter(seed uint64) (violation string, iterations, yields int64) {
	r := core.NewRng(seed)
	base := time.Now()
	now := func() int64 { return int64(time.Since(base)) }
	var removedAt sync.Map // value -> time of its OnDeletion
	stable := 1 + r.Intn(30)
	hot := 1 + r.Intn(6)
	o := &otter.Options[int, int]{
		InitialCapacity: []int{0, 1, 16, 1000}[r.Intn(4)],
		Executor:        func(fn func()) { fn() },
		OnDeletion: func(e otter.DeletionEvent[int, int]) {
			removedAt.Store(e.Value, now())
		},
	}
	if r.Chance(1, 2) {
		o.MaximumSize = 1 << 22 // never reached: the eviction policy is on, so replaced nodes are retired
	}
	c, err := otter.New(o)
	if err != nil {
		return "cannot build: " + err.Error(), 0, 0
	}
	defer c.StopAllGoroutines()
	otter.VerifSetHook(compHook(seed, []int{0, 20, 100}[r.Intn(3)]))
	defer otter.VerifSetHook(nil)
	for i := 0; i < stable; i++ {
		c.Set(stableBase+i, stableBase+i)
	}
	// steady keys are present all the time as well, but their value is replaced over and over
	steady := 1 + r.Intn(20)
	for i := 0; i < steady; i++ {
		c.Set(steadyBase+i, -1)
	}
	written := sync.Map{} // value -> key
	var stop atomic.Bool
	var vmu sync.Mutex
	fail := func(s string) {
		vmu.Lock()
		if violation == "" {
			violation = s
		}
		vmu.Unlock()
		stop.Store(true)
	}
	var wg sync.WaitGroup
	writers := 1 + r.Intn(4)
	for w := 0; w < writers; w++ {
		wg.Add(1)
		go func(w int) {
			defer wg.Done()
			rng := core.NewRng(core.Derive(seed, 1, uint64(w)))
			for i := 0; i < 300 && !stop.Load(); i++ {
				k := rng.Intn(hot)
				if rng.Chance(1, 4) {
					c.Invalidate(k)
				} else {
					v := (w+1)*10_000_000 + i + 1
					written.Store(v, k)
					c.Set(k, v)
				}
				progress.Add(1)
			}
		}(w)
	}
	wg.Add(1)
	go func() {
		defer wg.Done()
		for i := 0; !stop.Load(); i++ {
			c.Set(steadyBase+i%steady, -2-i)
			if i%64 == 0 {
				progress.Add(1)
			}
		}
	}()
	churnKeys := 200 + r.Intn(2000)
	wg.Add(1)
	go func() {
		defer wg.Done()
		for round := 0; round < 3 && !stop.Load(); round++ {
			for i := 0; i < churnKeys; i++ {
				v := 500_000_000 + round*churnKeys + i
				written.Store(v, churnBase+i)
				c.Set(churnBase+i, v)
			}
			for i := 0; i < churnKeys; i++ {
				c.Invalidate(churnBase + i)
			}
		}
	}()
	var its, ys atomic.Int64
	var iwg sync.WaitGroup
	for g := 0; g < 1+r.Intn(3); g++ {
		iwg.Add(1)
		go func(g int) {
			defer iwg.Done()
			for n := 0; n < 60 && !stop.Load(); n++ {
				t0 := now()
				seen := map[int]int{}
				check := func(k, v int, hasK, hasV bool) {
					ys.Add(1)
					if hasK {
						seen[k]++
					}
					if hasV && v >= 10_000_000 {
						wk, ok := written.Load(v)
						if !ok {
							fail(fmt.Sprintf("an iteration yielded value %d, which was never written", v))
							return
						}
						if hasK && wk.(int) != k {
							fail(fmt.Sprintf("an iteration yielded (%d,%d) but that value was written to key %d", k, v, wk.(int)))
							return
						}
						if d, ok := removedAt.Load(v); ok && d.(int64) < t0 {
							fail(fmt.Sprintf("an iteration begun at %d yielded value %d of key %d, whose removal had been notified at %d, before the iteration began", t0, v, wk.(int), d.(int64)))
						}
					}
				}
				switch (g + n) % 3 {
				case 0:
					for k, v := range c.All() {
						check(k, v, true, true)
					}
				case 1:
					for k := range c.Keys() {
						check(k, 0, true, false)
					}
				default:
					nv := 0
					stableSeen := 0
					for v := range c.Values() {
						check(0, v, false, true)
						nv++
						if v >= stableBase && v < stableBase+stable {
							stableSeen++
						}
					}
					if stableSeen != stable {
						fail(fmt.Sprintf("Values() yielded %d of the %d stable values", stableSeen, stable))
					}
					its.Add(1)
					continue
				}
				its.Add(1)
				for k, cnt := range seen {
					if cnt > 1 {
						fail(fmt.Sprintf("one iteration yielded key %d %d times", k, cnt))
					}
				}
				for i := 0; i < stable; i++ {
					if seen[stableBase+i] != 1 {
						fail(fmt.Sprintf("an iteration did not yield stable key %d, which was present for its whole duration", stableBase+i))
						break
					}
				}
				for i := 0; i < steady; i++ {
					if seen[steadyBase+i] != 1 {
						fail(fmt.Sprintf("an iteration did not yield key %d, which was present for its whole duration (its value is replaced concurrently, it is never removed; eviction policy on: %v)", steadyBase+i, o.MaximumSize != 0))
						break
					}
				}
				progress.Add(1)
			}
		}(g)
	}
	iwg.Wait()
	stop.Store(true)
	wg.Wait()
	if violation == "" {
		n := 0
		for range c.All() {
			n++
		}
		if c.EstimatedSize() != n {
			violation = fmt.Sprintf("EstimatedSize()=%d but a quiescent iteration yields %d entries", c.EstimatedSize(), n)
		}
	}
	return violation, its.Load(), ys.Load()
}

func RunC15(col *core.Collector, tier, variant string, seed uint64, shard, nshards int, replayDir, outBase string) {
	col.Note("rule: a trial = lookups and per-key atomic updates on hot keys (recorded, porcupine per key), a stable key set that every concurrent lookup and every concurrent Range must find exactly once, churn goroutines that grow and shrink the table, Rangers checking once-only / nothing-removed-before-start, Size at quiescence, Clear; non-trivial = the table grew or shrank during the trial and at least one hot key history overlapped; distinct = hash of the hot-key history")
	n := 440
	if tier == "thorough" {
		n = 12000
	}
	if variant != "plain" {
		n /= 4
	}
	dump := filepath.Join(replayDir, fmt.Sprintf("C15-stall-%s-%d.txt", variant, shard))
	wd := StartWatchdog(40*time.Second, dump, func(d string) {
		col.Violation(core.Violation{Property: "C15", Signature: "stall", Detail: "table operations do not return: " + firstFrames(d), Replay: dump})
		col.Write(outBase)
		os.Exit(0)
	})
	for i := shard; i < n; i += nshards {
		r := core.NewRng(core.Derive(seed, core.StrLabel("C15"), core.StrLabel(variant), uint64(i)))
		cfg := tableCfg{Seed: r.U64(), Index: i,
			InitCap:   []int{0, 0, 1, 16, 1000, 10000}[r.Intn(6)],
			Stable:    1 + r.Intn(40),
			Hot:       1 + r.Intn(5),
			Workers:   2 + r.Intn(6),
			Ops:       20 + r.Intn(50),
			Churners:  1 + r.Intn(3),
			ChurnKeys: 100 + r.Intn(1500),
			Rounds:    1 + r.Intn(3),
			Rangers:   1 + r.Intn(2),
			DelayPerM: []int{0, 10, 50, 150}[r.Intn(4)],
			Procs:     []int{0, 0, 2, 3, 5, 6, 7}[r.Intn(7)],
		}
		if r.Chance(2, 5) {
			cfg.HashMode = 1 + r.Intn(len(hashModes)-1)
			cfg.ChurnKeys = 20 + r.Intn(400) // chains are walked linearly
		}
		if r2 := core.NewRng(core.Derive(seed, core.StrLabel("C15stampede"), core.StrLabel(variant), uint64(i))); r2.Chance(1, 5) {
			// a stampede: many goroutines fill an empty table with keys of their own at the same moment, so that
			// several of them decide to grow the table at once (one resizes, the others wait for it) and the next
			// growth follows while the waiters are still waking up; then they all drain it again
			cfg.Churners = 8 + r2.Intn(25)
			cfg.ChurnKeys = 60 + r2.Intn(300)
			cfg.Rounds = 2 + r2.Intn(2)
			cfg.InitCap = 0
			cfg.HashMode = 0
			cfg.Stampede = true
			col.Count("stampede_trials", 1)
		}
		if cfg.Procs > 0 {
			runtime.GOMAXPROCS(cfg.Procs)
		} else {
			runtime.GOMAXPROCS(runtime.NumCPU())
		}
		for cfg.Workers*cfg.Ops/cfg.Hot > 150 {
			cfg.Ops = cfg.Ops * 2 / 3
		}
		wd.Arm()
		v, st, hist := runTable(cfg)
		col.Count("hash_mode."+hashModeNames[cfg.HashMode], 1)
		if cfg.HashMode != 0 {
			col.Max("max_chain_degraded_hash", st["max_chain"])
		}
		setHashMode(cfg.HashMode) // the cache-level checks of this trial run on the same kind of hash
		if v == "" && i%10 == 0 {
			v = clearCheck(cfg.Seed)
			col.Count("clear_checks", 1)
		}
		if v == "" {
			var ys int64
			v, ys = cacheHeldIter(cfg.Seed ^ 0x55)
			col.Count("cache_level.held_iterator_yields", ys)
		}
		if v == "" && i%8 == 3 {
			var n int64
			v, n = cacheClear(cfg.Seed^0x99, cfg.HashMode == 1 || cfg.HashMode >= 3)
			col.Count("cache_level.clears_under_load", 1)
			col.Count("cache_level.cleared_keys", n)
		}
		if v == "" && i%2 == 0 {
			var its, ys int64
			v, its, ys = cacheIter(cfg.Seed ^ 0x77)
			col.Count("cache_level.iterations", its)
			col.Count("cache_level.yields", ys)
		}
		otter.VerifSetHash(nil)
		wd.Disarm()
		col.Eval(1)
		for k, n := range st {
			if k == "max_chain" || k == "lin_overlap" {
				col.Max(k, n)
			} else {
				col.Count(k, n)
			}
		}
		if st["lin_unknown"] > 0 {
			col.Inconclusive(fmt.Sprintf("trial %d: %d hot-key histories timed out in the checker", i, st["lin_unknown"]))
		}
		if st["growths"]+st["shrinks"] > 0 && st["lin_overlap"] >= 2 {
			col.NonTrivial(core.HashJSON([]any{cfg, st["lin_ops"], st["range_yields"]}))
		}
		if col.NumSamples() < 2 {
			col.Sample(map[string]any{"trial": cfg, "observed": st})
		}
		if v != "" {
			path := writeReplay(replayDir, fmt.Sprintf("C15-table-%x.json", core.HashJSON(cfg)), map[string]any{"engine": "table", "trial": cfg, "violation": v, "hot_history": hist})
			col.Violation(core.Violation{Property: "C15", Signature: "table:" + sigText(v), Detail: v + fmt.Sprintf(" (trial %+v)", cfg), Replay: path})
			if col.NumViolations() >= 5 {
				break
			}
		}
	}
}

// ---- C16: the write buffer ---------------------------------------------------------------------------

type mpscCfg struct {
	Seed      uint64 `json:"seed"`
	Index     int    `json:"index"`
	Init      uint32 `json:"initial_capacity"`
	Max       uint32 `json:"max_capacity"`
	Producers int    `json:"producers"`
	PerProd   int    `json:"per_producer"`
	DelayPerM int    `json:"delay_per_mille"`
	SlowCons  bool   `json:"slow_consumer"`
	FullOnly  bool   `json:"consumer_polls_only_a_full_queue"` // producers keep retrying refused offers meanwhile
}

type mpscElem struct {
	P, Seq int
}

func runMPSC(cfg mpscCfg) (violation string, st map[string]int64) {
	st = map[string]int64{}
	q := otter.VerifNewMPSC[mpscElem](cfg.Init, cfg.Max)
	capacity := q.Capacity()
	otter.VerifSetHook(compHook(cfg.Seed, cfg.DelayPerM))
	defer otter.VerifSetHook(nil)
	base := time.Now()
	now := func() int64 { return int64(time.Since(base)) }
	type refusal struct{ call, ret int64 }
	beginOf := make([][]int64, cfg.Producers) // begin stamps of accepted pushes
	refusals := make([][]refusal, cfg.Producers)
	accepted := make([]int, cfg.Producers)
	endOf := make([][]int64, cfg.Producers) // return stamps of accepted pushes, by sequence number
	type emptyAns struct{ call, ret int64 }
	var empties []emptyAns // TryPop calls that answered "empty" while producers were still running
	var producersDone atomic.Int32
	var wg sync.WaitGroup
	for p := 0; p < cfg.Producers; p++ {
		wg.Add(1)
		go func(p int) {
			defer wg.Done()
			defer producersDone.Add(1)
			rng := core.NewRng(core.Derive(cfg.Seed, 9, uint64(p)))
			for s := 0; s < cfg.PerProd; s++ {
				e := &mpscElem{P: p, Seq: s}
				tries := 0
				for {
					t0 := now()
					if q.TryPush(e) {
						endOf[p] = append(endOf[p], now())
						beginOf[p] = append(beginOf[p], t0)
						accepted[p]++
						progress.Add(1)
						break
					}
					refusals[p] = append(refusals[p], refusal{t0, now()})
					tries++
					if tries > 200000 {
						return
					}
					if rng.Chance(1, 2) {
						runtime.Gosched()
					}
				}
			}
		}(p)
	}
	var popped []mpscElem
	var popDone []int64
	maxSize := uint64(0)
	consume := func() {
		rng := core.NewRng(core.Derive(cfg.Seed, 10))
		for {
			if s := q.Size(); s > maxSize {
				maxSize = s
			}
			if cfg.FullOnly && int(producersDone.Load()) < cfg.Producers && q.Size() < uint64(capacity) {
				runtime.Gosched()
				continue
			}
			c0 := now()
			e := q.TryPop()
			if e == nil {
				if len(empties) < 4000 {
					empties = append(empties, emptyAns{c0, now()})
				}
				if int(producersDone.Load()) == cfg.Producers {
					// final drain
					for e := q.TryPop(); e != nil; e = q.TryPop() {
						popped = append(popped, *e)
						popDone = append(popDone, now())
					}
					return
				}
				runtime.Gosched()
				continue
			}
			popped = append(popped, *e)
			popDone = append(popDone, now())
			progress.Add(1)
			if cfg.SlowCons && rng.Chance(1, 3) {
				time.Sleep(time.Duration(rng.Intn(30)) * time.Microsecond)
			}
		}
	}
	cwg := sync.WaitGroup{}
	cwg.Add(1)
	go func() { defer cwg.Done(); consume() }()
	wg.Wait()
	cwg.Wait()
	otter.VerifSetHook(nil)
	total := 0
	for _, a := range accepted {
		total += a
	}
	var nref int64
	for _, r := range refusals {
		nref += int64(len(r))
	}
	st["accepted"], st["popped"], st["refusals"], st["max_size_seen"], st["capacity"] = int64(total), int64(len(popped)), nref, int64(maxSize), int64(capacity)
	if maxSize > uint64(capacity) {
		return fmt.Sprintf("Size() reported %d, the buffer's capacity is %d", maxSize, capacity), st
	}
	// exactly once + producer order
	next := make([]int, cfg.Producers)
	seen := map[mpscElem]bool{}
	for _, e := range popped {
		if e.P < 0 || e.P >= cfg.Producers {
			return fmt.Sprintf("popped an element (%d,%d) that was never pushed", e.P, e.Seq), st
		}
		if seen[e] {
			return fmt.Sprintf("element (producer %d, seq %d) was delivered twice", e.P, e.Seq), st
		}
		seen[e] = true
		if e.Seq != next[e.P] {
			return fmt.Sprintf("producer %d: element %d was delivered where %d was expected (order or loss)", e.P, e.Seq, next[e.P]), st
		}
		next[e.P]++
	}
	for p := range next {
		if next[p] != accepted[p] {
			return fmt.Sprintf("producer %d: %d elements were accepted but %d were delivered after the final drain", p, accepted[p], next[p]), st
		}
	}
	if !q.IsEmpty() || q.Size() != 0 {
		return fmt.Sprintf("after the final drain Size()=%d IsEmpty=%v", q.Size(), q.IsEmpty()), st
	}
	// "empty" must be truthful: an element whose push had returned before TryPop was called and which
	// was delivered only after that TryPop returned was in the buffer all along
	{
		type pe struct {
			end, pop int64
			e        mpscElem
		}
		var els []pe
		for i, e := range popped {
			if e.Seq < len(endOf[e.P]) {
				els = append(els, pe{endOf[e.P][e.Seq], popDone[i], e})
			}
		}
		sort.Slice(els, func(i, j int) bool { return els[i].end < els[j].end })
		prefMax := make([]int, len(els)+1) // index of the element with the latest pop among the first i
		prefMax[0] = -1
		for i := range els {
			prefMax[i+1] = prefMax[i]
			if prefMax[i] < 0 || els[i].pop > els[prefMax[i]].pop {
				prefMax[i+1] = i
			}
		}
		st["empty_answers_checked"] = int64(len(empties))
		for _, a := range empties {
			n := sort.Search(len(els), func(i int) bool { return els[i].end >= a.call })
			if j := prefMax[n]; j >= 0 && els[j].pop > a.ret {
				return fmt.Sprintf("TryPop called at %d answered empty at %d although element (producer %d, seq %d), whose push had returned at %d, was still in the buffer (it was delivered at %d)", a.call, a.ret, els[j].e.P, els[j].e.Seq, els[j].end, els[j].pop), st
			}
		}
	}
	// refusals must be justified
	var begins []int64
	for _, b := range beginOf {
		begins = append(begins, b...)
	}
	sort.Slice(begins, func(i, j int) bool { return begins[i] < begins[j] })
	for p, rs := range refusals {
		for _, r := range rs {
			a := sort.Search(len(begins), func(i int) bool { return begins[i] > r.ret })
			d := sort.Search(len(popDone), func(i int) bool { return popDone[i] >= r.call })
			if a-d < capacity {
				return fmt.Sprintf("producer %d was refused at [%d,%d] although at most %d accepted elements (%d pushes begun, %d pops completed) could be in a buffer of capacity %d", p, r.call, r.ret, a-d, a, d, capacity), st
			}
		}
	}
	return "", st
}

func mpscSequential(init, max uint32) string {
	q := otter.VerifNewMPSC[mpscElem](init, max)
	want := 1
	for want < int(max) {
		want <<= 1
	}
	if q.Capacity() != want {
		return fmt.Sprintf("(initial %d, max %d): capacity %d, expected %d", init, max, q.Capacity(), want)
	}
	n := 0
	for q.TryPush(&mpscElem{P: 0, Seq: n}) {
		n++
		if n > 2*want+10 {
			break
		}
	}
	if n != want {
		return fmt.Sprintf("(initial %d, max %d): %d elements were accepted before the first refusal, the capacity is %d", init, max, n, want)
	}
	for i := 0; i < n; i++ {
		e := q.TryPop()
		if e == nil || e.Seq != i {
			return fmt.Sprintf("(initial %d, max %d): pop %d returned %v", init, max, i, e)
		}
	}
	if q.TryPop() != nil {
		return fmt.Sprintf("(initial %d, max %d): an extra element was popped", init, max)
	}
	return ""
}

// mpscHuge: a buffer whose maximum is too large to fill: the first 5000 offers are accepted (growth
// steps included) and delivered in order, and the capacity is the maximum rounded up to a power of two.
func mpscHuge(init, max uint32) (violation string) {
	defer func() {
		if r := recover(); r != nil {
			violation = fmt.Sprintf("(initial %d, max %d): panic: %v", init, max, r)
		}
	}()
	q := otter.VerifNewMPSC[mpscElem](init, max)
	want := uint64(1)
	for want < uint64(max) {
		want <<= 1
	}
	if uint64(q.Capacity()) != want {
		return fmt.Sprintf("(initial %d, max %d): capacity %d, expected %d", init, max, q.Capacity(), want)
	}
	const n = 5000
	for i := 0; i < n; i++ {
		if !q.TryPush(&mpscElem{P: 0, Seq: i}) {
			return fmt.Sprintf("(initial %d, max %d): offer %d was refused, the capacity is %d", init, max, i, want)
		}
	}
	for i := 0; i < n; i++ {
		e := q.TryPop()
		if e == nil || e.Seq != i {
			return fmt.Sprintf("(initial %d, max %d): pop %d returned %v", init, max, i, e)
		}
	}
	if q.TryPop() != nil {
		return fmt.Sprintf("(initial %d, max %d): an extra element was popped", init, max)
	}
	return ""
}

// cacheOrder is the cache-level half of C16: with an executor that only queues its tasks the write
// buffer fills up and writers fall back to applying their event themselves; every producer writes
// increasing values to its own keys, so the Replacement notifications of each key must arrive in
// increasing order (events of one producer are consumed in the order it submitted them) and every
// overwritten value must be reported exactly once (no write is forgotten).
// cacheFullThenOne is the cache-level "accepted on a retry" scenario of C16, single goroutine, executor
// that runs its tasks in the caller: the body of a Coldest/Hottest iteration (which holds the eviction
// lock) issues exactly as many writes as the write buffer holds, a variable number of further writes
// follows the iteration. The first of them is refused, requests a drain and is accepted on its retry.
// After the last write returned - and without a further call - every accepted event must have been
// handed to the policies: write buffer empty, status idle, bound respected, every replaced value notified.
func cacheFullThenOne(seed uint64) (violation string) {
	r := core.NewRng(seed)
	capEvents := 128 * roundUpPow2(procsAtStart)
	var notified atomic.Int64
	o := &otter.Options[int, int]{
		MaximumSize: capEvents/2 + r.Intn(capEvents),
		Executor:    func(fn func()) { fn() },
		OnDeletion:  func(e otter.DeletionEvent[int, int]) { notified.Add(1) },
	}
	c, err := otter.New(o)
	if err != nil {
		return "cannot build: " + err.Error()
	}
	defer c.StopAllGoroutines()
	c.Set(-1, -1)
	it := c.Coldest()
	if r.Chance(1, 2) {
		it = c.Hottest()
	}
	inBody := capEvents - r.Intn(3) // the buffer ends up full, or one or two events short of full
	for range it {
		for i := 0; i < inBody; i++ {
			c.Set(i, i)
		}
		break
	}
	after := 1 + r.Intn(4)
	for i := 0; i < after; i++ {
		c.Set(inBody+i, 1)
	}
	s := c.VerifAudit()
	if s.WriteBufferSize != 0 || s.DrainStatus != 0 {
		return fmt.Sprintf("%d writes were issued from the body of an iteration (the write buffer holds %d events), %d more after it; all calls returned (executor runs in the caller): %d accepted write event(s) were never handed to the policies (drain status %d)", inBody, capEvents, after, s.WriteBufferSize, s.DrainStatus)
	}
	if n := c.EstimatedSize(); n > int(c.GetMaximum()) {
		return fmt.Sprintf("after %d writes from an iteration body and %d more, the cache holds %d entries, its maximum is %d and no maintenance is pending", inBody, after, n, c.GetMaximum())
	}
	return ""
}

func cacheOrder(seed uint64) (violation string, writes, notifications int64) {
	r := core.NewRng(seed)
	var mu sync.Mutex
	var queue []func()
	var events []otter.DeletionEvent[int, int]
	asyncExec := r.Chance(1, 2)
	var ewg sync.WaitGroup
	o := &otter.Options[int, int]{
		MaximumSize: 100000,
		Executor: func(fn func()) {
			if asyncExec {
				// (half of the cases) a pool that runs its tasks: maintenance passes start all the time
				ewg.Add(1)
				go func() {
					defer ewg.Done()
					fn()
				}()
				return
			}
			mu.Lock()
			queue = append(queue, fn)
			mu.Unlock()
		},
		OnDeletion: func(e otter.DeletionEvent[int, int]) {
			mu.Lock()
			events = append(events, e)
			mu.Unlock()
		},
	}
	c, err := otter.New(o)
	if err != nil {
		return "cannot build: " + err.Error(), 0, 0
	}
	defer c.StopAllGoroutines()
	producers := 1 + r.Intn(4)
	per := 2300 + r.Intn(1500)
	if producers > 1 {
		per = 900 + r.Intn(900)
	}
	keysPer := 1 + r.Intn(3)
	var wg sync.WaitGroup
	// every other public call that looks at the policies runs next to the producers: whoever consumes
	// write events must do so as the single consumer (under the eviction lock)
	var stopGetters atomic.Bool
	var gwg sync.WaitGroup
	// (in half of the cases nobody else looks at the policies: with a stalled executor the write buffer then
	// really fills up and the producers that find it full apply their own event behind the buffered ones)
	getters := 0
	if r.Chance(1, 2) {
		getters = 1 + r.Intn(3)
	}
	for g := 0; g < getters; g++ {
		gwg.Add(1)
		go func(g int) {
			defer gwg.Done()
			for i := 0; !stopGetters.Load(); i++ {
				switch (g + i) % 5 {
				case 0:
					c.GetMaximum()
				case 1:
					c.WeightedSize()
				case 2:
					c.EstimatedSize()
				case 3:
					for range c.Coldest() {
						break
					}
				default:
					c.SetMaximum(100000)
				}
				runtime.Gosched()
			}
		}(g)
	}
	for p := 0; p < producers; p++ {
		wg.Add(1)
		go func(p int) {
			defer wg.Done()
			for i := 0; i < per; i++ {
				c.Set(p*10+i%keysPer, i+1)
				progress.Add(1)
			}
		}(p)
	}
	wg.Wait()
	stopGetters.Store(true)
	gwg.Wait()
	ewg.Wait()
	// half of the cases: the cache is cleared while write events are still pending in the buffer (the
	// executor has run nothing): the clear consumes them - applying them, not dropping them
	cleared := r.Chance(1, 2)
	if cleared {
		c.InvalidateAll()
	}
	c.CleanUp()
	// run the queued tasks in the order they were submitted (notifications are queued in replay order)
	for {
		mu.Lock()
		if len(queue) == 0 {
			mu.Unlock()
			break
		}
		fn := queue[0]
		queue = queue[1:]
		mu.Unlock()
		fn()
	}
	ewg.Wait()
	c.CleanUp()
	ewg.Wait()
	last := map[int]int{}
	count := map[int]int{}
	invalidated := map[int]int{}
	seenVal := map[[2]int]bool{}
	for _, e := range events {
		if cleared && e.Cause == otter.CauseInvalidation {
			invalidated[e.Key]++
			if !asyncExec && e.Value <= last[e.Key] {
				return fmt.Sprintf("key %d: the value %d removed by InvalidateAll was reported although the later value %d had already been reported as replaced", e.Key, e.Value, last[e.Key]), int64(producers * per), int64(len(events))
			}
			continue
		}
		if e.Cause != otter.CauseReplacement {
			return fmt.Sprintf("unexpected deletion event %+v", e), int64(producers * per), int64(len(events))
		}
		// (with the pool that runs every notification in a goroutine of its own the arrival order says
		// nothing about the consumption order: only the counts are judged there)
		if !asyncExec && e.Value <= last[e.Key] {
			return fmt.Sprintf("key %d (one producer, values written in increasing order): the replacement of value %d was consumed after the replacement of value %d", e.Key, e.Value, last[e.Key]), int64(producers * per), int64(len(events))
		}
		if seenVal[[2]int{e.Key, e.Value}] {
			return fmt.Sprintf("key %d: the replacement of value %d was reported twice", e.Key, e.Value), int64(producers * per), int64(len(events))
		}
		seenVal[[2]int{e.Key, e.Value}] = true
		last[e.Key] = max(last[e.Key], e.Value)
		count[e.Key]++
	}
	for p := 0; p < producers; p++ {
		for k := 0; k < keysPer; k++ {
			n := per / keysPer
			if k < per%keysPer {
				n++
			}
			if count[p*10+k] != n-1 {
				return fmt.Sprintf("key %d was overwritten %d times but %d replacements were reported (InvalidateAll with pending write events: %v)", p*10+k, n-1, count[p*10+k], cleared), int64(producers * per), int64(len(events))
			}
			if cleared {
				if invalidated[p*10+k] != 1 {
					return fmt.Sprintf("key %d was present when InvalidateAll ran with write events still pending, and its removal was reported %d times", p*10+k, invalidated[p*10+k]), int64(producers * per), int64(len(events))
				}
				if _, ok := c.GetEntryQuietly(p*10 + k); ok {
					return fmt.Sprintf("key %d is still present after InvalidateAll", p*10+k), int64(producers * per), int64(len(events))
				}
			}
		}
	}
	if cleared {
		// no pending add may have been forgotten by the policy: its accounting starts from zero again
		if n := c.WeightedSize(); n != 0 {
			return fmt.Sprintf("after InvalidateAll (write events were pending) and a CleanUp the policy still accounts for weight %d in an empty cache", n), int64(producers * per), int64(len(events))
		}
	}
	return "", int64(producers * per), int64(len(events))
}

func RunC16(col *core.Collector, tier, variant string, seed uint64, shard, nshards int, replayDir, outBase string) {
	col.Note("rule: a trial = 1-16 producers pushing unique (producer, seq) elements into the cache's MPSC buffer built with an (initial, max) capacity pair while one consumer pops, delays between index CAS and element publication and inside resize; non-trivial = the buffer grew by linking at least one chunk (accepted > initial capacity) with 2+ producers; distinct = hash of (config, refusals, delivered order)")
	n := 900
	if tier == "thorough" {
		n = 30000
	}
	if variant != "plain" {
		n /= 3
	}
	dump := filepath.Join(replayDir, fmt.Sprintf("C16-stall-%s-%d.txt", variant, shard))
	wd := StartWatchdog(40*time.Second, dump, func(d string) {
		col.Violation(core.Violation{Property: "C16", Signature: "stall", Detail: "buffer operations do not return: " + firstFrames(d), Replay: dump})
		col.Write(outBase)
		os.Exit(0)
	})
	if variant == "plain" {
		m := 40
		if tier == "thorough" {
			m = 1500
		}
		for i := shard; i < m; i += nshards {
			cs := core.Derive(seed, core.StrLabel("C16cache"), uint64(i))
			wd.Arm()
			v, w, nn := cacheOrder(cs)
			if v == "" {
				v = cacheFullThenOne(cs)
				col.Count("cache_level.full_buffer_then_retried_offer", 1)
			}
			wd.Disarm()
			col.Eval(1)
			col.Count("cache_level.writes", w)
			col.Count("cache_level.notifications", nn)
			if v != "" {
				path := writeReplay(replayDir, fmt.Sprintf("C16-cache-%x.json", cs), map[string]any{"engine": "cache-order", "case_seed": cs, "violation": v})
				col.Violation(core.Violation{Property: "C16", Signature: "cache-order:" + sigText(v), Detail: v, Replay: path})
			}
		}
	}
	if shard == 0 {
		for init := uint32(2); init <= 64; init++ {
			for _, max := range []uint32{4, 5, 7, 8, 16, 31, 33, 64, 100, 128, 1000, 1024} {
				if max < init {
					continue
				}
				col.Eval(1)
				if v := mpscSequential(init, max); v != "" {
					col.Violation(core.Violation{Property: "C16", Signature: "mpsc-seq:" + sigText(v), Detail: v})
				}
			}
		}
	}
	if shard == 2%nshards {
		// maxima around 2^30..2^31 (the bound is computed in 64 bits from the rounded 32-bit maximum): the
		// buffer cannot be filled, but the first growth steps must work and deliver in order
		for _, pr := range [][2]uint32{{2, 1<<30 + 1}, {4, 1 << 31}, {64, 1<<31 - 1}, {2, 1<<30 - 1}, {4, 1 << 30}, {2, 1<<31 - 5}} {
			col.Eval(1)
			col.Count("huge_maximum_pairs", 1)
			if v := mpscHuge(pr[0], pr[1]); v != "" {
				col.Violation(core.Violation{Property: "C16", Signature: "mpsc-huge:" + sigText(v), Detail: v})
			}
		}
	}
	if shard == 1%nshards {
		// large capacities: values just above a power of two beyond 2^16 (the rounding and the chunk
		// masks are computed from them), filled up to the first refusal and drained in order
		for _, pr := range [][2]uint32{{2, 65536}, {2, 65537}, {65537, 131073}, {4, 131073}, {1 << 16, 1 << 17}, {1024, 262145}, {16, 1048579}, {70000, 200000}} {
			col.Eval(1)
			col.Count("large_capacity_pairs", 1)
			if v := mpscSequential(pr[0], pr[1]); v != "" {
				col.Violation(core.Violation{Property: "C16", Signature: "mpsc-seq:" + sigText(v), Detail: v})
			}
		}
	}
	for i := shard; i < n; i += nshards {
		r := core.NewRng(core.Derive(seed, core.StrLabel("C16"), core.StrLabel(variant), uint64(i)))
		cfg := mpscCfg{Seed: r.U64(), Index: i,
			Init:      uint32(2 + r.Intn(63)),
			Max:       []uint32{4, 8, 16, 32, 64, 128, 256, 1024}[r.Intn(8)],
			Producers: 1 + r.Intn(16),
			PerProd:   50 + r.Intn(400),
			DelayPerM: []int{0, 20, 100, 300}[r.Intn(4)],
			SlowCons:  r.Chance(1, 2),
		}
		if i%3 == 0 {
			// tiny queue that is kept full: every growth step and the wrap of the last chunk happen
			// while producers retry refused offers
			cfg.Max = []uint32{4, 8, 8, 16}[r.Intn(4)]
			cfg.Init = []uint32{2, 4}[r.Intn(2)]
			cfg.Producers = 2 + r.Intn(6)
			cfg.PerProd = 200 + r.Intn(600)
			cfg.FullOnly = true
			cfg.SlowCons = false
		}
		if cfg.Max < cfg.Init {
			cfg.Init = 2 + uint32(r.Intn(int(cfg.Max)-1))
		}
		wd.Arm()
		v, st := runMPSC(cfg)
		wd.Disarm()
		col.Eval(1)
		for k, n := range st {
			if k == "max_size_seen" || k == "capacity" {
				col.Max(k, n)
			} else {
				col.Count(k, n)
			}
		}
		if st["accepted"] > int64(cfg.Init) && cfg.Producers >= 2 {
			col.NonTrivial(core.HashJSON([]any{cfg, st}))
		}
		if col.NumSamples() < 2 {
			col.Sample(map[string]any{"trial": cfg, "observed": st})
		}
		if v != "" {
			path := writeReplay(replayDir, fmt.Sprintf("C16-mpsc-%x.json", core.HashJSON(cfg)), map[string]any{"engine": "mpsc", "trial": cfg, "violation": v})
			col.Violation(core.Violation{Property: "C16", Signature: "mpsc:" + sigText(v), Detail: v + fmt.Sprintf(" (trial %+v)", cfg), Replay: path})
			if col.NumViolations() >= 5 {
				break
			}
		}
	}
}

// ---- C17: the read buffer ------------------------------------------------------------------------------

type stripedCfg struct {
	Seed      uint64 `json:"seed"`
	Index     int    `json:"index"`
	MaxLen    int    `json:"max_stripes"`
	Recorders int    `json:"recorders"`
	PerRec    int    `json:"per_recorder"`
	DelayPerM int    `json:"delay_per_mille"`
	Drainer   bool   `json:"concurrent_drainer"`
}

func runStriped(cfg stripedCfg) (violation string, st map[string]int64) {
	st = map[string]int64{}
	main := cfg.Recorders * cfg.PerRec
	// ids beyond the main phase are recorded in a fill phase without a drainer: the buffer saturates
	fill := 16 * cfg.MaxLen * 3
	total := main + fill
	s := otter.VerifNewStriped(cfg.MaxLen, total)
	otter.VerifSetHook(compHook(cfg.Seed, cfg.DelayPerM))
	defer otter.VerifSetHook(nil)
	result := make([]int8, total) // 1 success, 2 failed, 3 full (written by the recorder that owns the id)
	delivered := make([]int32, total)
	var bad atomic.Pointer[string]
	var maxLen atomic.Int64
	var wg sync.WaitGroup
	var stop atomic.Bool
	consumer := func(key int) {
		if key < 0 || key >= total {
			msg := fmt.Sprintf("the buffer delivered key %d, which was never recorded", key)
			bad.Store(&msg)
			return
		}
		delivered[key]++
	}
	var dwg sync.WaitGroup
	if cfg.Drainer {
		dwg.Add(1)
		go func() {
			defer dwg.Done()
			for !stop.Load() {
				s.DrainTo(consumer)
				if l := int64(s.Len()); l > maxLen.Load() {
					maxLen.Store(l)
				}
				runtime.Gosched()
			}
		}()
	}
	for r := 0; r < cfg.Recorders; r++ {
		wg.Add(1)
		go func(r int) {
			defer wg.Done()
			for i := 0; i < cfg.PerRec; i++ {
				id := r*cfg.PerRec + i
				switch s.Add(id) {
				case 0:
					result[id] = 1
				case -1:
					result[id] = 2
				case 1:
					result[id] = 3
				default:
					result[id] = 4
				}
				progress.Add(1)
			}
		}(r)
	}
	wg.Wait()
	stop.Store(true)
	dwg.Wait()
	if l := int64(s.Len()); l > maxLen.Load() {
		maxLen.Store(l)
	}
	otter.VerifSetHook(nil)
	// fill phase: nobody drains, every recorder keeps adding: however the table was grown under
	// contention before, the buffer never holds more than its fixed capacity of 16 entries x MaxLen stripes
	var next atomic.Int64
	next.Store(int64(main))
	for r := 0; r < cfg.Recorders; r++ {
		wg.Add(1)
		go func() {
			defer wg.Done()
			for {
				id := int(next.Add(1) - 1)
				if id >= total {
					return
				}
				switch s.Add(id) {
				case 0:
					result[id] = 1
				case -1:
					result[id] = 2
				case 1:
					result[id] = 3
				default:
					result[id] = 4
				}
			}
		}()
	}
	wg.Wait()
	if l := int64(s.Len()); l > maxLen.Load() {
		maxLen.Store(l)
	}
	before := int64(0)
	for id := 0; id < total; id++ {
		before += int64(delivered[id])
	}
	s.DrainTo(consumer)
	after := int64(0)
	for id := 0; id < total; id++ {
		after += int64(delivered[id])
	}
	if after-before > int64(16*cfg.MaxLen) {
		return fmt.Sprintf("one drain of the saturated buffer delivered %d entries, the fixed capacity is 16 x %d stripes", after-before, cfg.MaxLen), st
	}
	s.DrainTo(consumer)
	if p := bad.Load(); p != nil {
		return *p, st
	}
	var succ, failed, full, deliv int64
	for id := 0; id < total; id++ {
		switch result[id] {
		case 1:
			succ++
		case 2:
			failed++
		case 3:
			full++
		default:
			return fmt.Sprintf("Add returned an unknown status for id %d", id), st
		}
		deliv += int64(delivered[id])
		if delivered[id] > 1 {
			return fmt.Sprintf("recorded entry %d was delivered %d times", id, delivered[id]), st
		}
		if delivered[id] == 1 && result[id] != 1 {
			return fmt.Sprintf("entry %d was delivered although recording it was refused (status %d)", id, result[id]), st
		}
		if delivered[id] == 0 && result[id] == 1 {
			return fmt.Sprintf("entry %d was recorded successfully but not delivered by two drains at quiescence", id), st
		}
	}
	st["recorded"], st["failed"], st["full"], st["delivered"], st["max_len"] = succ, failed, full, deliv, maxLen.Load()
	if maxLen.Load() > int64(16*cfg.MaxLen) {
		return fmt.Sprintf("Len() reported %d, the capacity is 16 x %d stripes", maxLen.Load(), cfg.MaxLen), st
	}
	if s.Len() != 0 {
		return fmt.Sprintf("Len()=%d after draining at quiescence", s.Len()), st
	}
	return "", st
}

func RunC17(col *core.Collector, tier, variant string, seed uint64, shard, nshards int, replayDir, outBase string) {
	col.Note("rule: a trial = many recorders adding distinct nodes to the cache's striped lossy buffer against one drainer, with delays between tail CAS and slot publication and under the busy flag (stripe creation and table doubling under contention); non-trivial = at least one add was refused or failed and at least 2 recorders; distinct = hash of (config, counts)")
	n := 3000
	if tier == "thorough" {
		n = 100000
	}
	if variant != "plain" {
		n /= 3
	}
	dump := filepath.Join(replayDir, fmt.Sprintf("C17-stall-%s-%d.txt", variant, shard))
	wd := StartWatchdog(40*time.Second, dump, func(d string) {
		col.Violation(core.Violation{Property: "C17", Signature: "stall", Detail: "buffer operations do not return: " + firstFrames(d), Replay: dump})
		col.Write(outBase)
		os.Exit(0)
	})
	m := 48
	if tier == "thorough" {
		m = 3000
	}
	if variant != "plain" {
		m /= 3
	}
	for i := shard; i < m && col.NumViolations() < 5; i += nshards {
		cs := core.Derive(seed, core.StrLabel("C17cache"), core.StrLabel(variant), uint64(i))
		wd.Arm()
		v, reads := cacheReadBuffer(cs)
		wd.Disarm()
		col.Eval(1)
		col.Count("cache_level.scenarios", 1)
		col.Count("cache_level.reads", reads)
		if v != "" {
			path := writeReplay(replayDir, fmt.Sprintf("C17-cache-%x.json", cs), map[string]any{"engine": "cache-readbuffer", "case_seed": cs, "violation": v})
			col.Violation(core.Violation{Property: "C17", Signature: "cache:" + sigText(v), Detail: v, Replay: path})
		}
	}
	bursts := 64
	if tier == "thorough" {
		bursts = 2000
	}
	if variant != "plain" {
		bursts /= 2
	}
	for i := shard; i < bursts && col.NumViolations() < 5; i += nshards {
		cs := core.Derive(seed, core.StrLabel("C17burst"), core.StrLabel(variant), uint64(i))
		wd.Arm()
		v, adds, bufs := runStripedBurst(cs, 400)
		wd.Disarm()
		col.Eval(1)
		col.NonTrivial(cs)
		col.Count("burst.new_buffers", bufs)
		col.Count("burst.adds", adds)
		if v != "" {
			path := writeReplay(replayDir, fmt.Sprintf("C17-burst-%x.json", cs), map[string]any{"engine": "striped-burst", "case_seed": cs, "violation": v})
			col.Violation(core.Violation{Property: "C17", Signature: "striped:" + sigText(v), Detail: v, Replay: path})
		}
	}
	for i := shard; i < n; i += nshards {
		r := core.NewRng(core.Derive(seed, core.StrLabel("C17"), core.StrLabel(variant), uint64(i)))
		cfg := stripedCfg{Seed: r.U64(), Index: i,
			MaxLen:    []int{1, 2, 4, 8, 64}[r.Intn(5)],
			Recorders: 1 + r.Intn(16),
			PerRec:    20 + r.Intn(300),
			DelayPerM: []int{0, 50, 200, 500}[r.Intn(4)],
			Drainer:   r.Chance(3, 4),
		}
		wd.Arm()
		v, st := runStriped(cfg)
		wd.Disarm()
		col.Eval(1)
		for k, n := range st {
			if k == "max_len" {
				col.Max(k, n)
			} else {
				col.Count(k, n)
			}
		}
		if st["failed"]+st["full"] > 0 && cfg.Recorders >= 2 {
			col.NonTrivial(core.HashJSON([]any{cfg, st}))
		}
		if col.NumSamples() < 2 {
			col.Sample(map[string]any{"trial": cfg, "observed": st})
		}
		if v != "" {
			path := writeReplay(replayDir, fmt.Sprintf("C17-striped-%x.json", core.HashJSON(cfg)), map[string]any{"engine": "striped", "trial": cfg, "violation": v})
			col.Violation(core.Violation{Property: "C17", Signature: "striped:" + sigText(v), Detail: v + fmt.Sprintf(" (trial %+v)", cfg), Replay: path})
			if col.NumViolations() >= 5 {
				break
			}
		}
	}
}

// ---- C18: the frequency sketch and the admission rule -----------------------------------------------------

func runSketch(seed uint64) (violation string, st map[string]int64) {
	st = map[string]int64{}
	r := core.NewRng(seed)
	s := otter.VerifNewSketch()
	keys := 1 + r.Intn(300)
	// before frequency tracking is enabled every estimate is zero
	for i := 0; i < 20; i++ {
		k := r.Intn(keys)
		s.Increment(k)
		if f := s.Frequency(k); f != 0 {
			return fmt.Sprintf("estimate of key %d is %d before ensureCapacity", k, f), st
		}
	}
	caps := []uint64{1, 2, 3, 5, 7, 8, 9, 16, 17, 100, 127, 128, 129, 1000, 4097, 100000}
	capacity := caps[r.Intn(len(caps))]
	s.EnsureCapacity(capacity)
	if !s.IsInitialized() {
		return "the sketch is not initialized after ensureCapacity", st
	}
	ref := map[int]int{}
	steps := 200 + r.Intn(6000)
	hot := r.Intn(keys)
	sinceRebuild, firstAging := 0, true // recordings since the table was (re)built; explicit aging steps end the count too
	for i := 0; i < steps; i++ {
		if r.Chance(1, 400) {
			// grow (a smaller request must change nothing)
			before := s.TableLen()
			nc := caps[r.Intn(len(caps))]
			s.EnsureCapacity(nc)
			st["ensure_capacity"]++
			if s.TableLen() != before {
				if s.TableLen() < before {
					return fmt.Sprintf("ensureCapacity(%d) shrank the table from %d to %d", nc, before, s.TableLen()), st
				}
				ref = map[int]int{} // a new table starts a new period
				sinceRebuild, firstAging = 0, true
				if s.Size() != 0 {
					return fmt.Sprintf("ensureCapacity(%d) rebuilt the table (%d -> %d words) but kept %d recordings of the old table in the period counter: the first aging step will halve estimates after %d instead of %d recordings", nc, before, s.TableLen(), s.Size(), s.SampleSize()-s.Size(), s.SampleSize()), st
				}
			}
		}
		if r.Chance(1, 700) {
			// explicit aging step: every estimate is halved
			before := map[int]uint64{}
			for k := 0; k < keys; k++ {
				before[k] = s.Frequency(k)
			}
			s.Reset()
			firstAging = false
			st["explicit_resets"]++
			for k := 0; k < keys; k++ {
				if f := s.Frequency(k); f != before[k]/2 {
					return fmt.Sprintf("after an aging step the estimate of key %d is %d, it was %d before (expected %d)", k, f, before[k], before[k]/2), st
				}
			}
			ref = map[int]int{}
		}
		k := r.Intn(keys)
		if r.Chance(1, 3) {
			k = hot
		}
		sizeBefore := s.Size()
		saturated := s.Frequency(k) == 15 // all four counters of the key are at their maximum
		s.Increment(k)
		st["increments"]++
		if saturated {
			st["saturated_increments"]++
			if s.Size() != sizeBefore {
				return fmt.Sprintf("key %d has the estimate 15 (its counters are saturated), recording it changes no counter, but the sampling period advanced from %d to %d of %d: recordings that add nothing bring the aging step forward", k, sizeBefore, s.Size(), s.SampleSize()), st
			}
		}
		sinceRebuild++
		if s.Size() < sizeBefore {
			// the sampling period ended: the sketch aged itself
			st["period_resets"]++
			ref = map[int]int{}
			if firstAging && uint64(sinceRebuild) < s.SampleSize() {
				return fmt.Sprintf("the first aging step after the table was built came after %d recordings, the sampling period is %d", sinceRebuild, s.SampleSize()), st
			}
			firstAging = false
		} else {
			ref[k]++
		}
		f := s.Frequency(k)
		if f > 15 {
			return fmt.Sprintf("estimate of key %d is %d (> 15)", k, f), st
		}
		if want := uint64(min(ref[k], 15)); f < want {
			return fmt.Sprintf("key %d was recorded %d times in this sampling period but its estimate is %d (capacity %d, table %d)", k, ref[k], f, capacity, s.TableLen()), st
		}
		if i%64 == 0 {
			for kk, c := range ref {
				ff := s.Frequency(kk)
				if ff > 15 || ff < uint64(min(c, 15)) {
					return fmt.Sprintf("key %d was recorded %d times in this sampling period but its estimate is %d", kk, c, ff), st
				}
			}
		}
	}
	return "", st
}

func runAdmit(seed uint64) (violation string, checked, randomUsed int64) {
	r := core.NewRng(seed)
	p := otter.VerifNewPolicy(uint64(8 + r.Intn(2000)))
	keys := 2 + r.Intn(60)
	for i := 0; i < 50+r.Intn(600); i++ {
		k := r.Intn(keys)
		if r.Chance(1, 2) {
			k = r.Intn(min(keys, 4)) // a few hot keys reach high counts
		}
		p.Increment(k)
	}
	for i := 0; i < 200; i++ {
		c, v := r.Intn(keys), r.Intn(keys)
		word := uint32(r.U64())
		switch r.Intn(4) {
		case 0:
			word &^= 127 // the documented random admission fires
		case 1:
			word |= 1
		}
		cf, vf := p.Frequency(c), p.Frequency(v)
		got, used := p.Admit(c, v, word)
		want := cf > vf || (cf >= 6 && word&127 == 0)
		wantUsed := cf <= vf && cf >= 6
		checked++
		if used {
			randomUsed++
		}
		if got != want {
			return fmt.Sprintf("admit(candidate freq %d, victim freq %d, random word %#x) = %v, expected %v", cf, vf, word, got, want), checked, randomUsed
		}
		if used != wantUsed {
			return fmt.Sprintf("admit(candidate freq %d, victim freq %d) consulted the random source: %v, expected %v", cf, vf, used, wantUsed), checked, randomUsed
		}
	}
	return "", checked, randomUsed
}

// runPolicyAdd is the policy-level half of C18: insertions are applied to a real eviction policy the
// way maintenance applies them; the sketch is enabled lazily by one of them. Whenever tracking is
// enabled after an insertion, the key that insertion recorded must have an estimate of at least 1,
// and of at least the number of times it was inserted since tracking began (capped at 15), as long as
// no sampling period ended in between (period = 10 x maximum recordings, so short runs stay inside one).
func runPolicyAdd(seed uint64) (violation string, adds int64) {
	r := core.NewRng(seed)
	maximum := uint64(2 + r.Intn(300))
	p := otter.VerifNewPolicyWithMaximum(maximum)
	counts := map[int]int{}
	recorded := 0
	n := int(maximum) + r.Intn(int(4*maximum)+1)
	for i := 0; i < n; i++ {
		key := i
		if r.Chance(1, 5) && i > 0 {
			key = r.Intn(i) // an evicted or resident key comes back
		}
		wasEnabled := p.SketchEnabled()
		p.Add(key)
		adds++
		if !p.SketchEnabled() {
			continue
		}
		if !wasEnabled {
			counts = map[int]int{} // tracking starts with this insertion
			recorded = 0
		}
		counts[key]++
		recorded++
		if uint64(recorded) >= 10*maximum-1 {
			counts = map[int]int{} // the sampling period may have ended
			recorded = 0
			continue
		}
		if f := p.Frequency(key); f < uint64(min(counts[key], 15)) {
			return fmt.Sprintf("policy with maximum %d: key %d was recorded by %d insertion(s) since tracking was enabled but its estimate is %d (insertion %d; tracking was enabled before it: %v)",
				maximum, key, counts[key], f, i, wasEnabled), adds
		}
	}
	return "", adds
}

func RunC18(col *core.Collector, tier, variant string, seed uint64, shard, nshards int, replayDir, outBase string) {
	col.Note("rule: a case = one sketch instance (fresh hash seed) with a capacity from 1 to 100000 incl. non powers of two, a generated recording order with a hot key, growing ensureCapacity calls and aging steps, compared with exact per-period reference counts; plus admission cases with injected random words; non-trivial = at least 200 recordings and one aging step (explicit or end of period); distinct = case seed")
	n := 12000
	if tier == "thorough" {
		n = 600000
	}
	for i := shard; i < n; i += nshards {
		cs := core.Derive(seed, core.StrLabel("C18"), uint64(i))
		v, st := runSketch(cs)
		col.Eval(1)
		for k, c := range st {
			col.Count("sketch."+k, c)
		}
		if st["increments"] >= 200 && st["explicit_resets"]+st["period_resets"] >= 1 {
			col.NonTrivial(cs)
		}
		if col.NumSamples() < 2 {
			col.Sample(map[string]any{"case_seed": cs, "observed": st})
		}
		if v != "" {
			path := writeReplay(replayDir, fmt.Sprintf("C18-sketch-%x.json", cs), map[string]any{"engine": "sketch", "case_seed": cs, "violation": v})
			col.Violation(core.Violation{Property: "C18", Signature: "sketch:" + sigText(v), Detail: v + fmt.Sprintf(" (case seed %d)", cs), Replay: path})
		}
		if pv, adds := runPolicyAdd(cs ^ 0x3333); true {
			col.Count("policy.insertions_applied", adds)
			if pv != "" {
				path := writeReplay(replayDir, fmt.Sprintf("C18-policy-%x.json", cs), map[string]any{"engine": "policy-add", "case_seed": cs ^ 0x3333, "violation": pv})
				col.Violation(core.Violation{Property: "C18", Signature: "policy-add:" + sigText(pv), Detail: pv, Replay: path})
			}
		}
		if i%4 == 0 {
			pv, st, passes, multi := runPolicyPasses(cs ^ 0x7777)
			col.Count("passes.followed", passes)
			col.Count("passes.with_2_or_more_comparisons", multi)
			col.Count("passes.comparisons", st.comparisons)
			col.Count("passes.arrival_admitted", st.admitted)
			col.Count("passes.arrival_rejected", st.rejected)
			col.Count("passes.random_admissions", st.randomAdmissions)
			col.Count("passes.forced_evictions", st.forced)
			if st.diverged {
				col.Count("passes.cases_with_a_structurally_different_pass", 1)
			}
			if pv != "" {
				path := writeReplay(replayDir, fmt.Sprintf("C18-pass-%x.json", cs), map[string]any{"engine": "policy-pass", "case_seed": cs ^ 0x7777, "violation": pv})
				col.Violation(core.Violation{Property: "C18", Signature: "pass:" + sigText(pv), Detail: pv, Replay: path})
			}
		}
		av, checked, used := runAdmit(cs ^ 0x5555)
		col.Count("admit.checked", checked)
		col.Count("admit.random_consulted", used)
		if av != "" {
			path := writeReplay(replayDir, fmt.Sprintf("C18-admit-%x.json", cs), map[string]any{"engine": "admit", "case_seed": cs ^ 0x5555, "violation": av})
			col.Violation(core.Violation{Property: "C18", Signature: "admit:" + sigText(av), Detail: av, Replay: path})
		}
		if col.NumViolations() >= 5 {
			break
		}
	}
}

var _ = porcupine.Ok
