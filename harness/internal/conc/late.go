package conc

import (
	"context"
	"encoding/json"
	"fmt"
	"os"
	"path/filepath"
	"sync"
	"sync/atomic"
	"time"

	"github.com/maypok86/otter/v2"

	"otterverif/internal/core"
)

// ---- late deadline extension ---------------------------------------------------------------------
//
// A reader looks an entry up while it is alive (clock t0) and is held up inside its
// ExpireAfterRead callback. The clock passes the entry's deadline. A writer then works on the key
// (it finds the entry expired) and is held up at a point after its verdict - at the yield point
// behind its table computation, or inside one of its own callbacks within the computation. Now the
// reader finishes: it extends the deadline of the node it holds, which the writer has just retired.
// Then the writer finishes. Whichever way the two calls are ordered, the outcome must be
// consistent: what the writer returned, what both deletion handlers were told, and what the
// policies know must describe the same course of events.
//
// Judged for C05 (views and structural audit), C06 (exactly once on both handlers, agreeing
// causes) and C03/C02 (the writer's result against the state it left behind).

const (
	lwSet = iota
	lwSetIfAbsent
	lwComputeWrite
	lwComputeInvalidate
	lwComputeCancel
	lwComputeIfAbsent
	lwInvalidate
	lwGetLoad
	lwInvalidateAll
	numLateWriters
)

var lateWriterNames = []string{"Set", "SetIfAbsent", "Compute(write)", "Compute(invalidate)", "Compute(cancel)", "ComputeIfAbsent", "Invalidate", "Get(load)", "InvalidateAll"}

const (
	lrGetIfPresent = iota
	lrGetEntry
	lrGet
	lrComputeIfPresent
	numLateReaders
)

// (SetIfAbsent on a present key consults ExpireAfterRead under the bucket lock: it cannot be overtaken)
var lateReaderNames = []string{"GetIfPresent", "GetEntry", "Get", "ComputeIfPresent(cancel)"}

const (
	lpComputed      = iota // the yield point behind the writer's table computation (no lock held)
	lpCreateCalc           // ExpireAfterCreate of the writer's new node (inside the computation, after the old node was examined)
	lpAtomicHandler        // OnAtomicDeletion for the old value (inside the computation, the cause already chosen)
	numLateParks
)

var lateParkNames = []string{"behind its table computation", "inside ExpireAfterCreate", "inside OnAtomicDeletion"}

type lateCfg struct {
	Writer int `json:"writer"`
	Reader int `json:"reader"`
	Park   int `json:"park"`
	Size   int `json:"size_kind"` // 0 unbounded 1 MaximumSize 2 MaximumWeight
	Exec   int `json:"exec"`      // 0 same goroutine 1 goroutine per task
}

func (c lateCfg) String() string {
	return fmt.Sprintf("%s parked in ExpireAfterRead before the deadline; %s after the deadline, held up %s; the reader finishes first (size kind %d, executor %d)",
		lateReaderNames[c.Reader], lateWriterNames[c.Writer], lateParkNames[c.Park], c.Size, c.Exec)
}

type lateCalc struct {
	ttl        time.Duration
	armRead    atomic.Bool
	readIn     chan struct{}
	readRel    chan struct{}
	armCreate  atomic.Bool
	createIn   chan struct{}
	createRel  chan struct{}
	extendedBy time.Duration
}

func (l *lateCalc) ExpireAfterCreate(e otter.Entry[int, int]) time.Duration {
	if l.armCreate.CompareAndSwap(true, false) {
		l.createIn <- struct{}{}
		<-l.createRel
	}
	return l.ttl
}
func (l *lateCalc) ExpireAfterUpdate(e otter.Entry[int, int], old int) time.Duration { return l.ttl }
func (l *lateCalc) ExpireAfterRead(e otter.Entry[int, int]) time.Duration {
	if l.armRead.CompareAndSwap(true, false) {
		l.readIn <- struct{}{}
		<-l.readRel
		return l.extendedBy
	}
	return e.ExpiresAfter()
}

type lateEv struct {
	atomic bool
	key    int
	val    int
	cause  otter.DeletionCause
}

// runLate returns the violations by class ("views", "audit", "events", "result"), an inconclusive
// note, and whether the writer was really parked after the reader had been parked (else the case
// does not apply).
func runLate(cfg lateCfg) (viol map[string]string, inconclusive string, applied bool) {
	viol = map[string]string{}
	const k, v1, v2, vL = 1, 1001, 2002, 3003
	clk := &phaseClock{tick: make(chan time.Time)}
	clk.now.Store(int64(1) << 40)
	calc := &lateCalc{ttl: time.Second, extendedBy: time.Hour,
		readIn: make(chan struct{}, 1), readRel: make(chan struct{}), createIn: make(chan struct{}, 1), createRel: make(chan struct{})}
	var (
		mu        sync.Mutex
		evs       []lateEv
		wg        sync.WaitGroup
		armAtomic atomic.Bool
		atomicIn  = make(chan struct{}, 1)
		atomicRel = make(chan struct{})
		armSite   atomic.Bool
		siteIn    = make(chan struct{}, 1)
		siteRel   = make(chan struct{})
	)
	o := &otter.Options[int, int]{
		Clock:            clk,
		ExpiryCalculator: calc,
		Logger:           &otter.NoopLogger{},
		OnAtomicDeletion: func(e otter.DeletionEvent[int, int]) {
			mu.Lock()
			evs = append(evs, lateEv{true, e.Key, e.Value, e.Cause})
			mu.Unlock()
			if e.Key == k && armAtomic.CompareAndSwap(true, false) {
				atomicIn <- struct{}{}
				<-atomicRel
			}
		},
		OnDeletion: func(e otter.DeletionEvent[int, int]) {
			mu.Lock()
			evs = append(evs, lateEv{false, e.Key, e.Value, e.Cause})
			mu.Unlock()
		},
	}
	switch cfg.Size {
	case 1:
		o.MaximumSize = 100
	case 2:
		o.MaximumWeight = 1000
		o.Weigher = func(key, v int) uint32 { return 3 }
	}
	if cfg.Exec == 0 {
		o.Executor = func(fn func()) { fn() }
	} else {
		o.Executor = func(fn func()) {
			wg.Add(1)
			go func() {
				defer wg.Done()
				fn()
			}()
		}
	}
	c, err := otter.New(o)
	if err != nil {
		return viol, err.Error(), false
	}
	defer c.StopAllGoroutines()
	var siteNames = map[int]bool{}
	for _, s := range []string{"set.computed", "compute.computed", "invalidate.computed", "load.computed"} {
		siteNames[siteIndex(s)] = true
	}
	var writerActive atomic.Bool
	otter.VerifSetHook(func(site int) {
		if siteNames[site] && writerActive.Load() && armSite.CompareAndSwap(true, false) {
			siteIn <- struct{}{}
			<-siteRel
		}
	})
	defer otter.VerifSetHook(nil)
	ctx := context.Background()

	c.Set(k, v1)
	c.Set(7, 7007) // a bystander
	c.CleanUp()
	wg.Wait()
	clk.now.Add(int64(500 * time.Millisecond))

	// 1. the reader, parked inside ExpireAfterRead having looked the entry up alive
	calc.armRead.Store(true)
	readerDone := make(chan struct{})
	var readV int
	var readOk bool
	go func() {
		defer close(readerDone)
		switch cfg.Reader {
		case lrGetIfPresent:
			readV, readOk = c.GetIfPresent(k)
		case lrGetEntry:
			var e otter.Entry[int, int]
			e, readOk = c.GetEntry(k)
			readV = e.Value
		case lrGet:
			v, err := c.Get(ctx, k, otter.LoaderFunc[int, int](func(ctx context.Context, key int) (int, error) { return vL + 1, nil }))
			readV, readOk = v, err == nil
		case lrComputeIfPresent:
			readV, readOk = c.ComputeIfPresent(k, func(old int) (int, otter.ComputeOp) { return old, otter.CancelOp })
		}
	}()
	select {
	case <-calc.readIn:
	case <-readerDone:
		return viol, "", false // this reader does not consult ExpireAfterRead
	case <-time.After(10 * time.Second):
		close(calc.readRel)
		return viol, "the reader neither parked nor returned", false
	}
	// 2. the deadline passes
	clk.now.Add(int64(1500 * time.Millisecond))
	tW := clk.now.Load()

	// 3. the writer, held up after its verdict
	switch cfg.Park {
	case lpComputed:
		armSite.Store(true)
	case lpCreateCalc:
		calc.armCreate.Store(true)
	case lpAtomicHandler:
		armAtomic.Store(true)
	}
	var wV int
	var wOk bool
	var wErr error
	writerDone := make(chan struct{})
	writerActive.Store(true)
	go func() {
		defer close(writerDone)
		switch cfg.Writer {
		case lwSet:
			wV, wOk = c.Set(k, v2)
		case lwSetIfAbsent:
			wV, wOk = c.SetIfAbsent(k, v2)
		case lwComputeWrite:
			wV, wOk = c.Compute(k, func(old int, found bool) (int, otter.ComputeOp) { return v2, otter.WriteOp })
		case lwComputeInvalidate:
			wV, wOk = c.Compute(k, func(old int, found bool) (int, otter.ComputeOp) { return 0, otter.InvalidateOp })
		case lwComputeCancel:
			wV, wOk = c.Compute(k, func(old int, found bool) (int, otter.ComputeOp) { return 0, otter.CancelOp })
		case lwComputeIfAbsent:
			wV, wOk = c.ComputeIfAbsent(k, func() (int, bool) { return v2, false })
		case lwInvalidate:
			wV, wOk = c.Invalidate(k)
		case lwGetLoad:
			wV, wErr = c.Get(ctx, k, otter.LoaderFunc[int, int](func(ctx context.Context, key int) (int, error) { return vL, nil }))
			wOk = wErr == nil
		case lwInvalidateAll:
			c.InvalidateAll()
		}
	}()
	parked := false
	select {
	case <-siteIn:
		parked = true
	case <-calc.createIn:
		parked = true
	case <-atomicIn:
		parked = true
	case <-writerDone:
	case <-time.After(10 * time.Second):
		inconclusive = "the writer neither parked nor returned"
	}
	// 4. the reader finishes (its extension lands on the node the writer has dealt with), then the writer
	armSite.Store(false)
	calc.armCreate.Store(false)
	armAtomic.Store(false)
	close(calc.readRel)
	readerWait := 20 * time.Second
	if cfg.Park != lpComputed {
		// the writer holds the key's bucket lock: the reader extends the deadline first thing, but its
		// own maintenance may then need that lock
		readerWait = 300 * time.Millisecond
	}
	select {
	case <-readerDone:
	case <-time.After(readerWait):
		if cfg.Park == lpComputed {
			inconclusive = "the reader did not return after its release"
		}
	}
	close(siteRel)
	close(calc.createRel)
	close(atomicRel)
	select {
	case <-writerDone:
	case <-time.After(60 * time.Second):
		viol["result"] = "the writer did not return after its release"
		return viol, "", parked
	}
	writerActive.Store(false)
	otter.VerifSetHook(nil)
	select {
	case <-readerDone:
	case <-time.After(60 * time.Second):
		viol["result"] = "the reader did not return"
		return viol, "", parked
	}
	if inconclusive != "" {
		return viol, inconclusive, false
	}
	if !parked {
		return viol, "", false
	}
	wg.Wait()
	c.CleanUp()
	wg.Wait()

	// ---- judgement -------------------------------------------------------------------------------
	mu.Lock()
	events := append([]lateEv(nil), evs...)
	mu.Unlock()
	cur, present := c.GetEntryQuietly(k)
	// values that were ever handed to the cache for key k
	written := []int{v1}
	switch cfg.Writer {
	case lwSet, lwSetIfAbsent, lwComputeWrite, lwComputeIfAbsent:
		written = append(written, v2)
	case lwGetLoad:
		written = append(written, vL)
	}
	if cfg.Reader == lrGet {
		written = append(written, vL+1)
	}
	cnt := func(atomicSide bool, v int) (n int, cause otter.DeletionCause) {
		for _, e := range events {
			if e.key == k && e.val == v && e.atomic == atomicSide {
				n++
				cause = e.cause
			}
		}
		return
	}
	for _, v := range written {
		na, ca := cnt(true, v)
		nd, cd := cnt(false, v)
		isCur := present && cur.Value == v
		switch {
		case isCur && (na > 0 || nd > 0):
			viol["events"] = fmt.Sprintf("value %d is the current value of key %d but was reported as removed (%d atomic, %d deferred events)", v, k, na, nd)
		case !isCur && na == 0 && nd == 0:
			// never installed (a conditional write that did nothing, a load that was discarded): fine
		case !isCur && (na != 1 || nd != 1):
			viol["events"] = fmt.Sprintf("value %d of key %d left the cache: OnAtomicDeletion saw it %d time(s), OnDeletion %d time(s); each must see it exactly once", v, k, na, nd)
		case !isCur && ca != cd:
			viol["events"] = fmt.Sprintf("value %d of key %d: OnAtomicDeletion was told %v, OnDeletion %v", v, k, ca, cd)
		}
	}
	// the writer's result against what it did (told by the atomic events of v1, which it alone can have caused)
	n1, c1 := cnt(true, v1)
	res := func(format string, a ...any) {
		if viol["result"] == "" {
			viol["result"] = fmt.Sprintf(format, a...)
		}
	}
	ev := func(format string, a ...any) {
		if viol["events"] == "" {
			viol["events"] = fmt.Sprintf(format, a...)
		}
	}
	switch cfg.Writer {
	case lwSet:
		// the return value and the cause are two statements of the cache about the same old value
		if n1 == 1 && c1 == otter.CauseExpiration && !wOk {
			ev("Set returned (%d,false) = \"replaced the live value %d\", but OnAtomicDeletion was told that %d had expired", wV, wV, v1)
		}
		if n1 == 1 && c1 == otter.CauseReplacement && wOk {
			ev("Set returned (%d,true) = \"no previous value\", but OnAtomicDeletion was told that %d was replaced", wV, v1)
		}
	case lwInvalidate:
		if wOk && n1 == 1 && c1 == otter.CauseExpiration {
			ev("Invalidate returned (%d,true) = \"removed a live entry\", but OnAtomicDeletion was told that it had expired", wV)
		}
		if !wOk && n1 == 1 && c1 == otter.CauseInvalidation {
			ev("Invalidate returned (_,false) = \"nothing to remove\", but OnAtomicDeletion was told that %d was invalidated", v1)
		}
	case lwSetIfAbsent:
		// outcomes no order of the two calls explains
		if !wOk && present && cur.Value == v2 {
			res("SetIfAbsent returned (%d,false) = \"nothing stored\", but the key now holds its argument %d", wV, v2)
		}
		if !wOk && n1 >= 1 {
			res("SetIfAbsent returned (%d,false) = \"the key holds %d, nothing stored\", but value %d was removed by it (cause %v)", wV, wV, v1, c1)
		}
		if wOk && !(present && cur.Value == v2) && func() bool { n, _ := cnt(true, v2); return n == 0 }() {
			res("SetIfAbsent returned (%d,true) = \"stored\", but the key does not hold %d and it was never reported as removed", wV, v2)
		}
	case lwComputeIfAbsent:
		if wOk && wV == v1 && n1 >= 1 {
			res("ComputeIfAbsent returned the old value %d as present, but that value was removed by it (cause %v)", v1, c1)
		}
	}
	_ = tW
	_ = readV
	_ = readOk
	// views and audit
	f := (&Trial{Cache: c, Cfg: TrialCfg{SizeKind: cfg.Size}}).Gather()
	if s := (&Trial{Cfg: TrialCfg{SizeKind: cfg.Size}}).CheckViews(f); s != "" {
		viol["views"] = s
	}
	if s := (&Trial{}).CheckAudit(f.Snap, true); s != "" {
		viol["audit"] = s
	}
	return viol, "", true
}

// RunLate runs the late-extension scenarios for one property; classes names the violation classes
// that refute it.
func RunLate(col *core.Collector, prop string, classes []string, tier, variant string, shard, nshards int, replayDir string) {
	reps := 1
	if tier == "thorough" {
		reps = 10
	}
	idx := 0
	for rep := 0; rep < reps; rep++ {
		for w := 0; w < numLateWriters; w++ {
			for rd := 0; rd < numLateReaders; rd++ {
				for pk := 0; pk < numLateParks; pk++ {
					for sz := 0; sz < 3; sz++ {
						for ex := 0; ex < 2; ex++ {
							idx++
							if idx%nshards != shard {
								continue
							}
							cfg := lateCfg{Writer: w, Reader: rd, Park: pk, Size: sz, Exec: ex}
							viol, inc, applied := runLate(cfg)
							col.Eval(1)
							progress.Add(1)
							switch {
							case inc != "":
								col.Count("late_extension.inconclusive", 1)
							case !applied:
								col.Count("late_extension.not_applicable", 1)
							default:
								col.Count("late_extension.judged", 1)
								col.Count("late_extension.writer."+lateWriterNames[w], 1)
								col.NonTrivial(core.HashJSON(cfg) + uint64(rep))
							}
							for _, cl := range classes {
								if v := viol[cl]; v != "" {
									path := filepath.Join(replayDir, fmt.Sprintf("%s-late-%x.json", prop, core.HashJSON(cfg)))
									data, _ := json.MarshalIndent(map[string]any{"engine": "late-extension", "scenario": cfg, "readable": cfg.String(), "class": cl, "violation": v}, "", " ")
									os.WriteFile(path, data, 0o644)
									col.Violation(core.Violation{Property: prop, Signature: "late:" + cl + ":" + sigText(lateWriterNames[w]), Detail: cfg.String() + ": " + v, Replay: path})
									break
								}
							}
						}
					}
				}
			}
		}
	}
}
