package seq

import (
	"math"
	"otterverif/internal/core"
)

// Profile biases the generator.
type Profile struct {
	Name     string
	OpW      [numOps]int
	ForceExp bool // always configure expiry
	ForceRef bool
	ForceSz  bool
	ForceSt  bool
	NoExp    bool
	Queued   bool // executor that only queues its tasks; no refresh policy
	Boundary int  // weight of deadline-exact clock moves
}

func baseWeights() [numOps]int {
	var w [numOps]int
	w[OpSet] = 14
	w[OpSetIfAbsent] = 5
	w[OpGetIfPresent] = 8
	w[OpGetEntry] = 4
	w[OpGetEntryQuietly] = 2
	w[OpCompute] = 6
	w[OpComputeIfAbsent] = 4
	w[OpComputeIfPresent] = 4
	w[OpInvalidate] = 5
	w[OpInvalidateAll] = 1
	w[OpSetExpiresAfter] = 3
	w[OpSetRefreshableAfter] = 2
	w[OpGet] = 6
	w[OpBulkGet] = 4
	w[OpRefresh] = 2
	w[OpBulkRefresh] = 2
	w[OpCleanUp] = 3
	w[OpAdvance] = 10
	w[OpSetMaximum] = 1
	w[OpIterate] = 3
	w[OpViews] = 1
	return w
}

var Profiles = map[string]*Profile{}

func init() {
	mix := &Profile{Name: "mix", OpW: baseWeights(), Boundary: 4}
	Profiles["mix"] = mix

	ex := &Profile{Name: "expiry", OpW: baseWeights(), ForceExp: true, Boundary: 10}
	ex.OpW[OpAdvance] = 22
	ex.OpW[OpSetExpiresAfter] = 6
	ex.OpW[OpIterate] = 5
	ex.OpW[OpCleanUp] = 2
	Profiles["expiry"] = ex

	sw := &Profile{Name: "sweep", OpW: baseWeights(), ForceExp: true, Boundary: 2}
	sw.OpW[OpAdvance] = 18
	sw.OpW[OpCleanUp] = 12
	sw.OpW[OpSet] = 20
	Profiles["sweep"] = sw

	sz := &Profile{Name: "size", OpW: baseWeights(), ForceSz: true, Boundary: 2}
	sz.OpW[OpSet] = 26
	sz.OpW[OpSetMaximum] = 4
	sz.OpW[OpGetIfPresent] = 12
	sz.OpW[OpAdvance] = 4
	Profiles["size"] = sz

	ld := &Profile{Name: "load", OpW: baseWeights(), Boundary: 4}
	ld.OpW[OpGet] = 18
	ld.OpW[OpBulkGet] = 18
	ld.OpW[OpSet] = 8
	ld.OpW[OpInvalidate] = 6
	Profiles["load"] = ld

	rf := &Profile{Name: "refresh", OpW: baseWeights(), ForceRef: true, Boundary: 10}
	rf.OpW[OpGet] = 16
	rf.OpW[OpBulkGet] = 10
	rf.OpW[OpRefresh] = 8
	rf.OpW[OpBulkRefresh] = 6
	rf.OpW[OpSetRefreshableAfter] = 5
	rf.OpW[OpAdvance] = 16
	Profiles["refresh"] = rf

	se := &Profile{Name: "sizeexp", OpW: baseWeights(), ForceSz: true, ForceExp: true, Boundary: 10}
	se.OpW[OpSet] = 18
	se.OpW[OpSetIfAbsent] = 8
	se.OpW[OpAdvance] = 16
	se.OpW[OpCleanUp] = 2
	se.OpW[OpIterate] = 5
	se.OpW[OpViews] = 3
	Profiles["sizeexp"] = se

	qu := &Profile{Name: "queued", OpW: baseWeights(), Queued: true, ForceSz: true, Boundary: 4}
	qu.OpW[OpSet] = 24
	qu.OpW[OpRunTasks] = 8
	qu.OpW[OpCleanUp] = 3
	qu.OpW[OpSetMaximum] = 2
	qu.OpW[OpRefresh], qu.OpW[OpBulkRefresh], qu.OpW[OpSetRefreshableAfter] = 0, 0, 0
	Profiles["queued"] = qu

	st := &Profile{Name: "stats", OpW: baseWeights(), ForceSt: true, Boundary: 4}
	st.OpW[OpGet] = 10
	st.OpW[OpBulkGet] = 8
	st.OpW[OpGetIfPresent] = 12
	Profiles["stats"] = st
}

// GenConfig draws a hostile configuration.
func GenConfig(r *core.Rng, p *Profile) Config {
	c := Config{Seed: r.U64()}
	c.Keys = 1 + r.Intn(8)
	if r.Chance(1, 6) {
		c.Keys = 9 + r.Intn(8)
	}
	many := r.Chance(1, 24)
	if many {
		c.Keys = 130 + r.Intn(300) // enough live entries for the hash table to grow (and shrink again)
	}
	switch k := r.Intn(10); {
	case p.ForceSz && k < 5, !p.ForceSz && k < 3:
		c.SizeKind = SizeCount
	case p.ForceSz, k < 6:
		c.SizeKind = SizeWeight
	default:
		c.SizeKind = SizeNone
	}
	if c.SizeKind != SizeNone {
		maxima := []uint64{1, 1, 2, 3, 4, 5, 8, 10, 20, 50}
		c.Maximum = maxima[r.Intn(len(maxima))]
		if c.SizeKind == SizeWeight && r.Chance(1, 8) {
			c.Maximum = 1000
		}
	}
	if many && c.SizeKind != SizeNone && r.Chance(2, 3) {
		c.Maximum = 1000
	}
	c.WBase = c.Maximum
	if c.SizeKind != SizeNone && r.Chance(1, 16) {
		// maxima around 2^63 and 2^64: "bounded, but never full" (the weigher stays built around a small value)
		huge := []uint64{1<<63 - 1, 1<<63 - 1, 1 << 62}
		if c.SizeKind == SizeWeight {
			huge = []uint64{1<<63 - 1, 1 << 63, 1<<63 + 7, math.MaxUint64, math.MaxUint64 - 1}
		}
		c.Maximum = huge[r.Intn(len(huge))]
	}
	c.WeightMode = r.Intn(3)
	if !p.NoExp && (p.ForceExp || r.Chance(6, 10)) {
		c.ExpKind = 1 + r.Intn(7)
	}
	if p.ForceRef || r.Chance(4, 10) {
		c.RefKind = 1 + r.Intn(5)
	}
	if p.Queued {
		c.Queued = true
		c.RefKind = RefNone // reload tasks would be queued too; executor timing of reloads is covered by the concurrent engine
	}
	c.Stats = p.ForceSt || r.Chance(1, 2)
	c.InitCap = []int{0, 0, 1, 3, 16, 1000}[r.Intn(6)]
	switch r.Intn(8) {
	case 0:
		c.ClockOrigin = int64(r.Intn(2))
	case 1, 2:
		c.ClockOrigin = 1_000_000_000
	case 3:
		c.ClockOrigin = maxI64 - int64(r.Intn(1<<40)) - 10
	default:
		c.ClockOrigin = 1_790_000_000_000_000_000 + r.Int63()%1_000_000_000_000
	}
	c.DurMode = []int{0, 0, 0, 1, 1, 2}[r.Intn(6)]
	c.ExpBase = c.pickDur(r.U64())
	c.RefBase = c.pickDur(r.U64())
	return c
}

// Gen produces operations online from the state of the model.
type Gen struct {
	R             *core.Rng
	P             *Profile
	Cfg           *Config
	val           int
	maxW          uint64
	fresh         int
	prefillTarget int
}

func (g *Gen) newVal() int {
	g.val++
	return g.val
}

// loadTime is how long a slow loader takes on the cache's clock.
func (g *Gen) loadTime() int64 {
	c := g.Cfg
	opts := []int64{1, 1000, 1 << 30, 1<<30 + 1, 3 << 30}
	if c.WithExp() && c.ExpBase > 0 {
		opts = append(opts, int64(c.ExpBase)/2+1, int64(c.ExpBase), int64(c.ExpBase)+1)
	}
	if c.WithRef() && c.RefBase > 0 {
		opts = append(opts, int64(c.RefBase), int64(c.RefBase)+1)
	}
	d := opts[g.R.Intn(len(opts))]
	if d <= 0 {
		d = 1
	}
	return d
}

func (g *Gen) key() int {
	if g.Cfg.Keys > 100 && g.R.Chance(1, 2) {
		g.fresh++ // large key spaces are walked through, so that the number of live entries really grows
		return g.fresh % g.Cfg.Keys
	}
	return g.R.Intn(g.Cfg.Keys)
}

func (g *Gen) plan(bulk bool, req []int, avoid map[int]bool) Plan {
	r := g.R
	var p Plan
	switch x := r.Intn(20); {
	case x < 12:
		p.Out = OutValue
	case x < 15:
		p.Out = OutError
	case x < 17:
		p.Out = OutNotFound
	case x < 18:
		p.Out = OutNotFoundWrapped
	default:
		p.Out = OutPanic
		p.Pan = r.Intn(4)
	}
	if r.Chance(1, 7) {
		p.Nest = 1 + r.Intn(2)
	}
	if g.Cfg.WithTime() && r.Chance(1, 5) {
		p.Adv = g.loadTime()
	}
	if bulk {
		p.Shape = []int{0, 0, 0, 1, 1, 2, 2, 3, 4, 5, 5}[r.Intn(11)]
		p.Mask = r.U64()
		if p.Shape == 2 || p.Shape == 5 {
			n := 1 + r.Intn(3)
			for i := 0; i < n; i++ {
				k := g.key()
				if !avoid[k] {
					avoid[k] = true
					p.Extra = append(p.Extra, k)
				}
			}
		}
	}
	return p
}

// Next draws the next operation.
func (g *Gen) Next(m *Model) Op {
	r := g.R
	w := g.P.OpW
	c := g.Cfg
	if !c.WithExp() {
		w[OpSetExpiresAfter] = 1
	}
	if !c.WithRef() {
		w[OpSetRefreshableAfter] = 1
		w[OpRefresh] = 1
		w[OpBulkRefresh] = 1
	}
	if !c.Bounded() {
		w[OpSetMaximum] = 0
	}
	if !c.WithTime() {
		w[OpAdvance] = 1
	}
	if !c.Queued {
		w[OpRunTasks] = 0
	}
	kind := r.Pick(w[:])
	if c.Keys > 100 {
		// a large key space starts with a run of plain insertions that brings the hash table close to its
		// first growth (32 buckets x 5 slots x 0.75), so that it is one of the following random operations -
		// a load, a computation, an insertion with calculators - that makes the table grow
		if g.prefillTarget == 0 {
			g.prefillTarget = 105 + r.Intn(20)
		}
		if g.fresh < g.prefillTarget {
			kind = OpSet
		}
	}
	op := Op{Kind: kind, Name: opNames[kind]}
	switch kind {
	case OpSet, OpSetIfAbsent:
		op.Key, op.Val = g.key(), g.newVal()
		if c.Keys > 100 && g.fresh < g.prefillTarget {
			g.fresh++
			op.Key = g.fresh % c.Keys
		}
	case OpGetIfPresent, OpGetEntry, OpGetEntryQuietly, OpInvalidate:
		op.Key = g.key()
	case OpCompute:
		op.Key, op.Val = g.key(), g.newVal()
		op.Dec = []int{DecCancel, DecWrite, DecWrite, DecWrite, DecInvalidate, DecInvalidate, DecPanic, DecInvalidOp}[r.Intn(8)]
	case OpComputeIfAbsent:
		op.Key, op.Val = g.key(), g.newVal()
		op.Dec = []int{DecCancel, DecWrite, DecWrite, DecWrite, DecPanic}[r.Intn(5)]
	case OpComputeIfPresent:
		op.Key, op.Val = g.key(), g.newVal()
		op.Dec = []int{DecCancel, DecWrite, DecWrite, DecInvalidate, DecPanic, DecInvalidOp}[r.Intn(6)]
	case OpSetExpiresAfter, OpSetRefreshableAfter:
		op.Key = g.key()
		op.Dur = c.pickDur(r.U64())
		if r.Chance(1, 10) {
			op.Dur = []int64{0, -1, -1 << 40}[r.Intn(3)]
		}
	case OpGet, OpRefresh:
		op.Key = g.key()
		if r.Chance(1, 6) {
			op.Ctx = 1 + r.Intn(2)
		}
		op.Plans[LkLoad] = g.plan(false, nil, nil)
		op.Plans[LkReload] = g.plan(false, nil, nil)
	case OpBulkGet, OpBulkRefresh:
		n := 1 + r.Intn(6)
		if r.Chance(1, 15) {
			n = 0
		}
		avoid := map[int]bool{}
		for i := 0; i < n; i++ {
			k := g.key()
			op.Keys = append(op.Keys, k)
			avoid[k] = true
			if r.Chance(1, 5) {
				op.Keys = append(op.Keys, k)
			}
		}
		op.Plans[LkBulkLoad] = g.plan(true, op.Keys, avoid)
		op.Plans[LkBulkReload] = g.plan(true, op.Keys, avoid)
	case OpAdvance:
		op.Dur = g.advance(m)
	case OpSetMaximum:
		opts := []uint64{0, 1, 2, 3, c.Maximum, c.Maximum + 1, c.Maximum * 2, 100}
		if c.WBase < 1<<32 {
			opts = []uint64{0, 1, 2, 3, c.WBase, c.WBase + 1, c.WBase * 2, 100, 1<<63 - 1, 1 << 63, 1<<63 + 3, math.MaxUint64}
		}
		op.Max = opts[r.Intn(len(opts))]
	case OpIterate:
		op.Which = r.Intn(5)
		if c.WithTime() && r.Chance(1, 4) {
			op.Dur = g.advance(m) // the iterator value is created, the clock moves, then it is ranged over
		}
	case OpRunTasks:
		op.Dur = int64(1 + r.Intn(4))
		if r.Chance(1, 4) {
			op.Dur = 1 << 20
		}
		op.Which = r.Intn(3)
	}
	return op
}

// advance picks a clock step, often exactly onto (or next to) a deadline the model knows.
func (g *Gen) advance(m *Model) int64 {
	r := g.R
	now := m.t()
	if r.Intn(20) < g.P.Boundary && len(m.phys) > 0 {
		// pick an entry (deterministically: the smallest key at or after a random key)
		start := g.key()
		var target *ent
		for i := 0; i < g.Cfg.Keys; i++ {
			if e := m.phys[(start+i)%g.Cfg.Keys]; e != nil {
				target = e
				break
			}
		}
		if target != nil {
			dl := target.exp
			if g.Cfg.WithRef() && (!g.Cfg.WithExp() || r.Chance(1, 2)) {
				dl = target.ref
			}
			if dl != maxI64 && dl > now {
				d := dl - now + int64(r.Intn(4)) - 2 // deadline-2 .. deadline+1
				if r.Chance(1, 2) {
					d = dl - now
				}
				if d > 0 {
					return d
				}
			}
		}
	}
	switch r.Intn(12) {
	case 0:
		return 1
	case 1:
		return 1 + int64(r.Intn(1000))
	case 2, 3:
		return 1 + r.Int63()%tickNanos // less than a tick
	case 4:
		return tickNanos
	case 5:
		return tickNanos + 1 + r.Int63()%(3*tickNanos)
	case 6:
		return tickNanos * (64 + int64(r.Intn(200))) // more than a revolution of the first wheel
	case 7:
		return (int64(1) << 36) * (1 + int64(r.Intn(130)))
	case 8:
		return (int64(1) << 42) * (1 + int64(r.Intn(70)))
	case 9:
		return (int64(1) << 47) * (1 + int64(r.Intn(9)))
	default:
		return g.Cfg.pickDur(r.U64())
	}
}
