package seq

import (
	"fmt"
	"math"
	"sort"

	"github.com/maypok86/otter/v2"
)

const tickNanos = int64(1) << 30 // span of the timer wheel's finest level

// Mismatch is one disagreement between the cache and the reference model.
type Mismatch struct {
	Class     string // ret | expired | event | unreported | overflow | early | bound | load | refresh | deadline | tooearly | sweep | stats | calc | calcexp | views | wheel
	Detail    string
	OnExpired bool // the operation was applied to a key whose entry had expired but was not swept yet
}

func (m Mismatch) String() string { return m.Class + ": " + m.Detail }

type ent struct {
	v         int
	w         uint32
	exp       int64
	ref       int64
	writtenAt int64 // clock value when the write that installed it returned
	shortened bool  // its deadline was moved backwards since it was installed
}

const (
	pwInstall = iota
	pwRemove
	pwRemoveIfExpired
)

type pend struct {
	key       int
	kind      int
	val       int
	isCall    bool // installed by a finishing load
	isFake    bool // a key the bulk loader volunteered: installed unconditionally
	isRefresh bool
	open      bool
	started   bool
	wSeen     bool
	expSeen   bool
	refSeen   bool
	done      bool
	e         ent
	prev      *ent // live predecessor captured when the write started
}

type expLoad struct {
	kind int
	key  int
	old  int
	keys []int
	olds map[int]int
	seen bool
}

// Model is the abstract map with deadlines.
type Model struct {
	cfg  *Config
	phys map[int]*ent
	max  uint64
	now  int64 // value of the manual clock
	// cumulative statistics
	hits, misses, loadOK, loadFail, evictions, evictionWeight uint64

	// per-operation state
	pends          map[int]*pend
	reads          map[int]int // expected ExpireAfterRead calls per key
	rrf            map[int]int // expected RefreshAfterReloadFailure calls per key
	loads          []*expLoad
	atomics        []Event
	deletions      []Event
	opHits         int64
	nestHits       int64 // lookups recorded by no-op computations run from inside a loader
	nestMisses     int64
	opMisses       int64
	opLoadOK       int64
	opLoadFail     int64
	evStats        []int64 // weights of RecordEviction calls in this op
	removed        []remEv // automatic removals in this op
	op             *Op
	mm             []Mismatch
	cbSeen         int
	execPanics     int
	nextLoad       func(ev Event) // handler of the next loader exit
	unnotified     []Event        // queued executor: atomic events whose OnDeletion has not been delivered yet
	registered     map[int]bool   // keys with an in-flight call of this operation that has not returned yet
	cancelled      map[int]bool   // ... whose call was cancelled by an automatic removal of the key
	lastExit       *Event
	bulkLoadExit   *Event
	bulkReloadExit *Event
}

type remEv struct {
	cause int
	w     uint32
}

func NewModel(cfg *Config) *Model {
	m := &Model{cfg: cfg, phys: map[int]*ent{}, now: cfg.ClockOrigin}
	if cfg.Bounded() {
		m.max = cfg.Maximum
	} else {
		m.max = math.MaxUint64
	}
	return m
}

// t is the time the cache sees.
func (m *Model) t() int64 {
	if !m.cfg.WithTime() {
		return 0
	}
	return m.now
}

func (m *Model) expired(e *ent) bool {
	return m.cfg.WithExp() && e.exp <= m.t()
}

func (m *Model) live(k int) *ent {
	e := m.phys[k]
	if e == nil || m.expired(e) {
		return nil
	}
	return e
}

func (m *Model) stale(e *ent) bool {
	return m.cfg.WithRef() && e.ref <= m.t()
}

func sat(a, b int64) int64 {
	s := a + b
	if s < a || s < b {
		return maxI64
	}
	return s
}

func (m *Model) fail(class, format string, args ...any) {
	m.mm = append(m.mm, Mismatch{Class: class, Detail: fmt.Sprintf(format, args...)})
}

func (m *Model) totalWeight() uint64 {
	var t uint64
	for _, e := range m.phys {
		t += uint64(e.w)
	}
	return t
}

// expDur is the duration the configured expiry policy prescribes for calc kind ck (0 = unchanged).
func (m *Model) expDur(ck, key, val int) int64 {
	c := m.cfg
	fixed := c.ExpKind == ExpCreating || c.ExpKind == ExpWriting || c.ExpKind == ExpAccessing
	applies := false
	switch c.expClass() {
	case 1:
		applies = ck == CkExpCreate
	case 2:
		applies = ck == CkExpCreate || ck == CkExpUpdate
	case 3, 4:
		applies = true
	}
	if !applies {
		return 0
	}
	if fixed {
		return c.ExpBase
	}
	return c.funcDur(ck, key, val)
}

func (m *Model) refDur(ck, key, val int) int64 {
	c := m.cfg
	fixed := c.RefKind == RefCreating || c.RefKind == RefWriting
	applies := false
	switch c.refClass() {
	case 1:
		applies = ck == CkRefCreate
	case 2:
		applies = ck == CkRefCreate || ck == CkRefUpdate || ck == CkRefReload
	case 4:
		applies = true
	}
	if !applies {
		return 0
	}
	if fixed {
		return c.RefBase
	}
	return c.funcDur(ck, key, val)
}

// ---- per-operation bookkeeping -------------------------------------------------------------

func (m *Model) begin(op *Op) {
	m.op = op
	m.pends = map[int]*pend{}
	m.reads = map[int]int{}
	m.rrf = map[int]int{}
	m.loads = nil
	m.atomics = m.atomics[:0]
	m.deletions = m.deletions[:0]
	m.opHits, m.opMisses, m.opLoadOK, m.opLoadFail = 0, 0, 0, 0
	m.nestHits, m.nestMisses = 0, 0
	m.evStats = m.evStats[:0]
	m.removed = m.removed[:0]
	m.mm = nil
	m.cbSeen = 0
	m.execPanics = 0
	m.nextLoad = nil
	m.lastExit, m.bulkLoadExit, m.bulkReloadExit = nil, nil, nil
	m.registered = map[int]bool{}
	m.cancelled = map[int]bool{}
}

func (m *Model) addPend(p *pend) *pend {
	if old := m.pends[p.key]; old != nil && !old.done {
		// The generator never lets one operation write a key twice; if the cache does, say so.
		m.fail("load", "key %d is written twice by one operation", p.key)
	}
	m.pends[p.key] = p
	if p.open {
		m.opened(p)
	}
	return p
}

// opened is called when the gate of a pending write opens.
func (m *Model) opened(p *pend) {
	p.open = true
	c := m.cfg
	if p.kind == pwInstall && !c.Weighted() && !c.WithExp() && !c.WithRef() && m.phys[p.key] == nil {
		// Nothing in the log marks this install: it is complete as soon as it may happen
		// (for the weight total this is the sound upper bound).
		m.start(p)
		m.finish(p)
	}
	if p.kind != pwInstall && m.phys[p.key] == nil {
		p.done = true
	}
	if p.kind == pwRemoveIfExpired {
		if e := m.phys[p.key]; e != nil && !m.expired(e) {
			p.done = true
		}
	}
}

func (m *Model) start(p *pend) {
	if p.started {
		return
	}
	p.started = true
	cur := m.phys[p.key]
	if cur != nil && !m.expired(cur) {
		cp := *cur
		p.prev = &cp
	}
	p.e = ent{v: p.val, w: 1, exp: maxI64, ref: maxI64, writtenAt: m.t()}
	if p.prev != nil {
		if m.cfg.WithExp() {
			p.e.exp = p.prev.exp
			p.e.shortened = p.prev.shortened
		}
		if m.cfg.WithRef() {
			p.e.ref = p.prev.ref
		}
	}
}

func (m *Model) maybeFinish(p *pend) {
	if p.done || p.kind != pwInstall || !p.started {
		return
	}
	c := m.cfg
	if c.Weighted() && !p.wSeen {
		return
	}
	if c.WithExp() && !p.expSeen {
		return
	}
	if c.WithRef() && !p.refSeen {
		return
	}
	if m.phys[p.key] != nil {
		return // the old value has not been reported yet
	}
	m.finish(p)
}

func (m *Model) finish(p *pend) {
	e := p.e
	m.phys[p.key] = &e
	p.done = true
}

// ---- log interpreter -----------------------------------------------------------------------

func (m *Model) onWeigher(ev Event) {
	p := m.pends[ev.Key]
	if p == nil || p.kind != pwInstall || !p.open || p.done || p.wSeen || p.val != ev.Val {
		m.fail("calc", "unexpected weigher call %s", ev)
		return
	}
	m.start(p)
	p.wSeen = true
	p.e.w = ev.Weight
	m.maybeFinish(p)
}

func (m *Model) onCalc(ev Event) {
	k := ev.Entry.Key
	now := m.t()
	if ev.Entry.SnapshotAtNano != now {
		m.fail("calc", "%s: the entry's snapshot time is not the operation time %d", ev, now)
	}
	switch ev.Sub {
	case CkExpRead:
		if m.reads[k] <= 0 {
			m.fail("calc", "unexpected %s", ev)
			return
		}
		m.reads[k]--
		e := m.phys[k]
		if e == nil || m.expired(e) || e.v != ev.Entry.Value {
			m.fail("calc", "%s was asked about a value that is not live in the model", ev)
			return
		}
		if d := m.expDur(CkExpRead, k, e.v); d > 0 {
			ne := sat(now, d)
			if ne < e.exp {
				e.shortened = true
			}
			e.exp = ne
		}
	case CkExpCreate, CkExpUpdate:
		p := m.pends[k]
		if p == nil || p.kind != pwInstall || !p.open || p.done || p.expSeen || ev.Entry.Value != p.val {
			m.fail("calc", "unexpected %s", ev)
			return
		}
		m.start(p)
		want := CkExpCreate
		if p.prev != nil {
			want = CkExpUpdate
		}
		if ev.Sub != want {
			m.fail("deadline", "%s consulted, the model expects %s (predecessor live: %v)", ev, calcNames[want], p.prev != nil)
			return
		}
		if want == CkExpUpdate && ev.Old != p.prev.v {
			m.fail("calc", "%s: old value is not the replaced value %d", ev, p.prev.v)
		}
		p.expSeen = true
		if d := m.expDur(want, k, p.val); d > 0 {
			ne := sat(now, d)
			if p.prev != nil && ne < p.e.exp {
				p.e.shortened = true
			}
			p.e.exp = ne
		}
		m.maybeFinish(p)
	case CkRefCreate, CkRefUpdate, CkRefReload:
		p := m.pends[k]
		if p == nil || p.kind != pwInstall || !p.open || p.done || p.refSeen || ev.Entry.Value != p.val {
			m.fail("calc", "unexpected %s", ev)
			return
		}
		m.start(p)
		want := CkRefCreate
		if p.prev != nil {
			want = CkRefUpdate
			if p.isCall && p.isRefresh {
				want = CkRefReload
			}
		}
		if ev.Sub != want {
			m.fail("deadline", "%s consulted, the model expects %s (predecessor live: %v)", ev, calcNames[want], p.prev != nil)
			return
		}
		if want != CkRefCreate && ev.Old != p.prev.v {
			m.fail("calc", "%s: old value is not the replaced value %d", ev, p.prev.v)
		}
		p.refSeen = true
		if d := m.refDur(want, k, p.val); d > 0 {
			p.e.ref = sat(now, d)
		}
		m.maybeFinish(p)
	case CkRefReloadFailure:
		if m.rrf[k] <= 0 {
			m.fail("calc", "unexpected %s", ev)
			return
		}
		m.rrf[k]--
		if e := m.phys[k]; e != nil {
			if d := m.refDur(CkRefReloadFailure, k, e.v); d > 0 {
				e.ref = sat(now, d)
			}
		}
	}
}

func (m *Model) pendingWeight() (total uint64) {
	for _, p := range m.pends {
		if p.kind == pwInstall && p.open && !p.done {
			if m.cfg.Weighted() {
				if p.wSeen {
					total += uint64(p.e.w)
				}
			} else {
				total++
			}
		}
	}
	return total
}

func (m *Model) onAtomic(ev Event) {
	m.atomics = append(m.atomics, ev)
	k, v := ev.Key, ev.Val
	cause := otter.DeletionCause(ev.Sub)
	cur := m.phys[k]
	p := m.pends[k]
	if p != nil && (!p.open || p.done) {
		p = nil
	}
	if (cur == nil || cur.v != v) && p != nil && p.kind == pwInstall && p.val == v {
		// The event is about the value this operation is installing: the install is complete.
		c := m.cfg
		if (c.Weighted() && !p.wSeen) || (c.WithExp() && !p.expSeen) || (c.WithRef() && !p.refSeen) || cur != nil {
			m.fail("event", "%s reports the new value before its installation was complete", ev)
			return
		}
		m.start(p)
		m.finish(p)
		cur = m.phys[k]
		p = nil
	}
	if cur == nil || cur.v != v {
		m.fail("event", "%s: that value is not the current value of the key in the model (current: %s)", ev, entStr(cur))
		return
	}
	exp := m.expired(cur)
	own := p != nil && (p.started || cause == otter.CauseReplacement || cause == otter.CauseInvalidation)
	if own {
		m.start(p)
		var want otter.DeletionCause
		switch {
		case exp:
			want = otter.CauseExpiration
		case p.kind == pwInstall:
			want = otter.CauseReplacement
		default:
			want = otter.CauseInvalidation
		}
		if cause != want {
			class := "event"
			if exp {
				class = "expcause" // an expired value left without its Expiration event (also a C13 matter)
			}
			m.fail(class, "%s: cause should be %s (expired in model: %v)", ev, want, exp)
			return
		}
		delete(m.phys, k)
		if p.kind == pwInstall {
			m.maybeFinish(p)
		} else {
			p.done = true
		}
		return
	}
	// An automatic removal.
	if m.registered[k] && cause != otter.CauseExpiration {
		// the eviction of the key discards the in-flight load of that key; the sweep of an entry that
		// had expired does not (the entry was absent for the load already; since the D26 repair)
		m.cancelled[k] = true
	}
	switch cause {
	case otter.CauseExpiration:
		if !exp {
			m.fail("early", "%s: the entry has not expired (deadline %d, now %d)", ev, cur.exp, m.t())
			return
		}
	case otter.CauseOverflow:
		if !m.cfg.Bounded() {
			// (with expiration configured the only automatic remover is the timer wheel: the entry left
			// before its deadline)
			cl := "overflow"
			if m.cfg.WithExp() && !exp {
				cl = "early"
			}
			m.fail(cl, "%s in a cache without a size bound (deadline %d, now %d)", ev, cur.exp, m.t())
			return
		}
		if cur.w == 0 {
			m.fail("overflow", "%s: a zero-weight entry was evicted for size", ev)
			return
		}
		total := m.totalWeight() + m.pendingWeight()
		if total <= m.max && uint64(cur.w) <= m.max {
			cl := "overflow"
			if m.cfg.WithExp() && !exp {
				cl = "early" // no size pressure explains it: an unexpired entry left before its deadline
			}
			m.fail(cl, "%s: total weight %d does not exceed the maximum %d (deadline %d, now %d)", ev, total, m.max, cur.exp, m.t())
			return
		}
		if now := m.t(); m.cfg.WithExp() && !cur.shortened && uint64(cur.w) <= m.max && cur.exp < now-tickNanos && cur.writtenAt < now-tickNanos {
			// (an entry that alone exceeds the maximum is evicted as soon as its write event is applied,
			// before the sweep: Overflow is a truthful cause for it)
			// maintenance sweeps expired entries before it evicts for size: an entry that expired more
			// than a tick ago must leave with its Expiration event, not as a size eviction
			m.fail("sweep", "%s at %d: the entry expired at %d (written at %d), more than one tick ago, but was removed for size without an Expiration event", ev, now, cur.exp, cur.writtenAt)
			return
		}
	default:
		m.fail("event", "%s: nothing in this operation replaces or invalidates that value", ev)
		return
	}
	m.removed = append(m.removed, remEv{cause: ev.Sub, w: cur.w})
	delete(m.phys, k)
	if p != nil && p.isCall && !p.isFake && !p.started {
		// the load of this key has finished but its result is not installed yet: an eviction of the
		// key discards it; the sweep of an entry that had expired does not (it was absent for the
		// load already; since the D26 repair) - the installation is still to come, as a creation
		if cause != otter.CauseExpiration {
			p.done = true
		}
		return
	}
	if p != nil {
		if p.kind == pwInstall {
			m.maybeFinish(p)
		} else {
			p.done = true
		}
	}
}

func entStr(e *ent) string {
	if e == nil {
		return "absent"
	}
	return fmt.Sprintf("{v=%d w=%d exp=%d ref=%d}", e.v, e.w, e.exp, e.ref)
}

func (m *Model) onLoadEnter(ev Event) {
	if m.op.Kind == OpBulkRefresh {
		// the refresh task registers the calls of both batches before it invokes a loader
		for _, l := range m.loads {
			if !l.seen {
				for _, k := range l.keys {
					m.registered[k] = true
				}
			}
		}
	}
	for _, l := range m.loads {
		if l.seen || l.kind != ev.Sub {
			continue
		}
		l.seen = true
		if ev.Sub <= LkReload {
			m.registered[l.key] = true
		}
		for _, k := range l.keys {
			m.registered[k] = true
		}
		switch ev.Sub {
		case LkLoad:
			if ev.Key != l.key {
				m.fail("load", "%s: expected key %d", ev, l.key)
			}
		case LkReload:
			if ev.Key != l.key || ev.Old != l.old {
				m.fail("load", "%s: expected key %d old %d", ev, l.key, l.old)
			}
		default:
			got := append([]int(nil), ev.Keys...)
			want := append([]int(nil), l.keys...)
			sort.Ints(got)
			sort.Ints(want)
			if fmt.Sprint(got) != fmt.Sprint(want) {
				m.fail("load", "%s: the model expects exactly the keys %v", ev, want)
			}
			if ev.Sub == LkBulkReload {
				if len(ev.Olds) != len(ev.Keys) {
					m.fail("load", "%s: old values are not aligned with keys", ev)
				} else {
					for i, k := range ev.Keys {
						if ev.Olds[i] != l.olds[k] {
							m.fail("load", "%s: old value of key %d should be %d", ev, k, l.olds[k])
						}
					}
				}
			}
		}
		return
	}
	m.fail("load", "unexpected loader invocation %s", ev)
}

// ---- walking the log of one operation --------------------------------------------------------

func (m *Model) walk(log []Event) {
	for _, ev := range log {
		if len(m.mm) > 0 {
			return
		}
		switch ev.Kind {
		case EvWeigher:
			m.onWeigher(ev)
		case EvCalc:
			m.onCalc(ev)
		case EvAtomic:
			m.onAtomic(ev)
		case EvDeletion:
			m.deletions = append(m.deletions, ev)
		case EvLoadEnter:
			m.onLoadEnter(ev)
		case EvLoadExit:
			cp := ev
			m.lastExit = &cp
			if ev.Sub == LkBulkLoad {
				m.bulkLoadExit = &cp
			} else if ev.Sub == LkBulkReload {
				m.bulkReloadExit = &cp
			}
			if m.nextLoad != nil {
				m.nextLoad(ev)
			}
			switch {
			case ev.Sub <= LkReload && (ev.Out == OutValue || ev.Out == OutNotFound):
				m.opLoadOK++
			case ev.Sub >= LkBulkLoad && (ev.Out == OutValue || ev.Out == OutNotFound):
				m.opLoadOK++
			default:
				m.opLoadFail++
			}
		case EvCallback:
			m.cbSeen++
			m.onCallback(ev)
		case EvStat:
			switch ev.Sub {
			case StHit:
				m.opHits += ev.N
			case StMiss:
				m.opMisses += ev.N
			case StEviction:
				m.evStats = append(m.evStats, ev.N)
			}
		case EvExecPanic:
			m.execPanics++
		case EvClockAdv:
			m.now += ev.N
		case EvNested:
			cur := m.live(ev.Key)
			if ev.Found != (cur != nil) || (cur != nil && cur.v != ev.Old) {
				m.fail("load", "%s while the key's load was in flight, the model holds %s", ev, entStr(cur))
				return
			}
			if ev.Found {
				m.nestHits++
			} else {
				m.nestMisses++
			}
		}
	}
}

func (m *Model) onCallback(ev Event) {
	op := m.op
	cur := m.live(ev.Key)
	switch op.Kind {
	case OpCompute:
		if ev.Found != (cur != nil) || (cur != nil && ev.Old != cur.v) {
			m.fail("ret", "Compute(%d): the function saw (%d,%v), the model holds %s", ev.Key, ev.Old, ev.Found, entStr(cur))
			if cur == nil && ev.Found {
				m.reclass("expired")
			}
			return
		}
		if cur == nil && ev.Old != 0 {
			// an absent (or expired) key comes with the zero value: the value of a dead entry must not leak into the function
			m.fail("ret", "Compute(%d): the function saw (%d,false); with found=false the old value must be the zero value", ev.Key, ev.Old)
			m.reclass("expired")
			return
		}
	case OpComputeIfAbsent:
		if cur != nil {
			m.fail("ret", "ComputeIfAbsent(%d): the function was invoked although the model holds %s", ev.Key, entStr(cur))
			return
		}
	case OpComputeIfPresent:
		if cur == nil || cur.v != ev.Old {
			m.fail("ret", "ComputeIfPresent(%d): the function saw %d, the model holds %s", ev.Key, ev.Old, entStr(cur))
			if cur == nil {
				m.reclass("expired")
			}
			return
		}
	}
	// Open the gate of this operation's write.
	if p := m.pends[ev.Key]; p != nil && !p.open {
		m.opened(p)
	}
}

// reclass changes the class of the last mismatch when the exposed value is one the model
// holds as expired (the C03 situation).
func (m *Model) reclass(class string) {
	if n := len(m.mm); n > 0 {
		m.mm[n-1].Class = class
	}
}

// end finishes the operation: pending writes must have happened, notifications must match.
func (m *Model) end() {
	if len(m.mm) > 0 {
		return
	}
	for _, p := range m.pends {
		if p.done {
			continue
		}
		if !p.open {
			if p.kind == pwInstall {
				m.fail("ret", "the write of key %d never ran", p.key)
				return
			}
			continue
		}
		switch p.kind {
		case pwInstall:
			c := m.cfg
			if (c.Weighted() && !p.wSeen) || (c.WithExp() && !p.expSeen) || (c.WithRef() && !p.refSeen) {
				class := "calc"
				if c.WithExp() && !p.expSeen {
					class = "calcexp" // the stored deadline is not the one the expiry policy dictates: the entry leaves at the wrong time (also a C07 matter)
				}
				m.fail(class, "installing key %d: weigher/calculators were not consulted (weigher %v, expiry %v, refresh %v)", p.key, p.wSeen, p.expSeen, p.refSeen)
				return
			}
			if cur := m.phys[p.key]; cur != nil {
				m.fail("event", "key %d: the replaced value %d was never reported to OnAtomicDeletion", p.key, cur.v)
				return
			}
			m.start(p)
			m.finish(p)
		case pwRemove:
			if cur := m.phys[p.key]; cur != nil {
				m.fail("event", "key %d: the invalidated value %d was never reported to OnAtomicDeletion", p.key, cur.v)
				return
			}
		case pwRemoveIfExpired:
			if cur := m.phys[p.key]; cur != nil && m.expired(cur) {
				// A cancelled compute over an expired entry removes it; not removing it is also
				// unobservable, so it is not demanded.
				_ = cur
			}
		}
	}
	for k, n := range m.reads {
		if n != 0 {
			m.fail("calc", "ExpireAfterRead was not consulted for the read of key %d", k)
			return
		}
	}
	for _, l := range m.loads {
		if !l.seen && m.execPanics == 0 { // a panic inside a refresh task ends the task
			m.fail("load", "the loader (%s) was not invoked", loaderNames[l.kind])
			return
		}
	}
	// OnDeletion must deliver exactly the atomic events (same-goroutine executor: by now).
	if m.cfg.Queued {
		// notifications are executor tasks: each one must match an atomic event that is still owed
		m.unnotified = append(m.unnotified, m.atomics...)
		for _, d := range m.deletions {
			found := -1
			for i, a := range m.unnotified {
				if a.Key == d.Key && a.Val == d.Val && a.Sub == d.Sub {
					found = i
					break
				}
			}
			if found < 0 {
				m.fail("event", "OnDeletion delivered %s, which OnAtomicDeletion never reported (or which was already delivered)", d)
				return
			}
			m.unnotified = append(m.unnotified[:found], m.unnotified[found+1:]...)
		}
	} else if !sameEvents(m.atomics, m.deletions) {
		// an Expiration removal whose notification is missing is the C13 situation too
		class := "event"
		for _, a := range m.atomics {
			if otter.DeletionCause(a.Sub) != otter.CauseExpiration {
				continue
			}
			delivered := false
			for _, d := range m.deletions {
				if d.Key == a.Key && d.Val == a.Val && d.Sub == a.Sub {
					delivered = true
				}
			}
			if !delivered {
				class = "unreported"
			}
		}
		m.fail(class, "OnAtomicDeletion saw %v but OnDeletion saw %v", m.atomics, m.deletions)
		return
	}
	// Eviction statistics: every Overflow removal is counted with its weight; nothing but
	// Overflow/Expiration removals is counted.
	if m.cfg.Stats {
		rem := append([]remEv(nil), m.removed...)
		for _, w := range m.evStats {
			found := -1
			for i, r := range rem {
				if int64(r.w) == w && r.cause == int(otter.CauseOverflow) {
					found = i
					break
				}
			}
			if found < 0 {
				for i, r := range rem {
					if int64(r.w) == w {
						found = i
						break
					}
				}
			}
			if found < 0 {
				m.fail("stats", "RecordEviction(%d) without a matching size/expiration removal", w)
				return
			}
			rem = append(rem[:found], rem[found+1:]...)
			m.evictions++
			m.evictionWeight += uint64(w)
		}
		for _, r := range rem {
			if r.cause == int(otter.CauseOverflow) {
				m.fail("stats", "an Overflow removal (weight %d) was not counted as an eviction", r.w)
				return
			}
		}
	}
}

func sameEvents(a, b []Event) bool {
	if len(a) != len(b) {
		return false
	}
	type key struct{ k, v, c int }
	cnt := map[key]int{}
	for _, e := range a {
		cnt[key{e.Key, e.Val, e.Sub}]++
	}
	for _, e := range b {
		cnt[key{e.Key, e.Val, e.Sub}]--
	}
	for _, n := range cnt {
		if n != 0 {
			return false
		}
	}
	return true
}
