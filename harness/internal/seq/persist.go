package seq

import (
	"bytes"
	"encoding/json"
	"fmt"
	"math"
	"os"
	"path/filepath"
	"sort"
	"strings"

	"github.com/maypok86/otter/v2"

	"otterverif/internal/core"
)

// PersistCase is a save/load round trip.
type PersistCase struct {
	Engine    string `json:"engine"`
	Seed      uint64 `json:"seed"`
	Index     int    `json:"index"`
	Cfg       Config `json:"config"`
	Ops       []Op   `json:"ops"`
	Offset    int64  `json:"offset"`     // clock offset between save and load
	TargetMax uint64 `json:"target_max"` // maximum of the target cache (bounded configurations)
	// ViaFile: 0 the snapshot goes through a buffer (SaveCacheTo / LoadCacheFrom); 1 through a new file in a
	// directory that does not exist yet (SaveCacheToFile / LoadCacheFromFile); 2 through a file that already
	// holds an older, much larger snapshot of another cache
	ViaFile int `json:"via_file,omitempty"`
}

type persistOutcome struct {
	mismatch  string
	saved     int
	expired   int
	loaded    int
	fits      bool
	zeroW     int
	dueRef    int
	srcFailed bool
}

func runPersist(pc *PersistCase, generate bool, nops int, rng *core.Rng) (out persistOutcome) {
	var cov Coverage
	src, err := NewRunner(pc.Cfg, &cov)
	if err != nil {
		out.mismatch = "cannot build source: " + err.Error()
		return
	}
	defer src.Env.Close()
	if generate {
		prof := *Profiles["mix"]
		prof.OpW[OpInvalidateAll] = 0
		prof.OpW[OpIterate] = 1
		g := &Gen{R: rng, P: &prof, Cfg: &src.Env.Cfg}
		for i := 0; i < nops; i++ {
			op := g.Next(src.M)
			pc.Ops = append(pc.Ops, op)
			if mm := src.Step(&pc.Ops[len(pc.Ops)-1]); len(mm) > 0 {
				out.srcFailed = true
				return
			}
		}
	} else {
		for i := range pc.Ops {
			if mm := src.Step(&pc.Ops[i]); len(mm) > 0 {
				out.srcFailed = true
				return
			}
		}
	}
	m := src.M
	saveTime := m.t()
	live := map[int]ent{}
	for k, e := range m.phys {
		if !m.expired(e) {
			live[k] = *e
		}
	}
	var buf bytes.Buffer
	if generate {
		switch core.Mix(pc.Seed^uint64(pc.Index)*0x9e3779b97f4a7c15) % 8 {
		case 5:
			pc.ViaFile = 1
		case 6, 7:
			pc.ViaFile = 2
		}
	}
	filePath := ""
	if pc.ViaFile != 0 {
		dir, derr := os.MkdirTemp("", "otterverif-c19-")
		if derr != nil {
			out.mismatch = "inconclusive: " + derr.Error()
			return
		}
		defer os.RemoveAll(dir)
		filePath = filepath.Join(dir, "snapshots", "cache.gob")
		if pc.ViaFile == 2 {
			decoy := otter.Must(&otter.Options[int, int]{})
			for i := 0; i < 400; i++ {
				decoy.Set(1_000_000+i, -i)
			}
			if err := otter.SaveCacheToFile(decoy, filePath); err != nil {
				out.mismatch = "SaveCacheToFile (older snapshot): " + err.Error()
				return
			}
			decoy.StopAllGoroutines()
		}
		if err := otter.SaveCacheToFile(src.Env.Cache, filePath); err != nil {
			out.mismatch = "SaveCacheToFile: " + err.Error()
			return
		}
	} else if err := otter.SaveCacheTo(src.Env.Cache, &buf); err != nil {
		out.mismatch = "SaveCacheTo: " + err.Error()
		return
	}
	if generate {
		// choose the clock offset and the target maximum
		switch rng.Intn(6) {
		case 0:
			pc.Offset = 0
		case 1:
			pc.Offset = 1 + int64(rng.Intn(1000))
		case 2, 3:
			// exactly onto (or next to) a deadline
			keys := make([]int, 0, len(live))
			for k := range live {
				keys = append(keys, k)
			}
			sort.Ints(keys)
			if len(keys) > 0 && pc.Cfg.WithTime() {
				e := live[keys[rng.Intn(len(keys))]]
				dl := e.exp
				if !pc.Cfg.WithExp() || (pc.Cfg.WithRef() && rng.Chance(1, 3)) {
					dl = e.ref
				}
				if dl != maxI64 && dl > saveTime {
					pc.Offset = dl - saveTime + int64(rng.Intn(3)) - 1
				}
			}
		case 4:
			pc.Offset = pc.Cfg.pickDur(rng.U64())
		default:
			pc.Offset = tickNanos * int64(1+rng.Intn(100))
		}
		if pc.Offset < 0 {
			pc.Offset = 0
		}
		pc.TargetMax = m.max
		if pc.Cfg.Bounded() {
			// the source's maximum may have been raised to around 2^63 / 2^64 (SetMaximum): stay representable
			lim := uint64(math.MaxUint64)
			if pc.Cfg.SizeKind == SizeCount {
				lim = math.MaxInt64 // MaximumSize is an int
			}
			switch rng.Intn(5) {
			case 0:
				if d := 1 + uint64(rng.Intn(10)); m.max < lim-d {
					pc.TargetMax = m.max + d
				} else {
					pc.TargetMax = lim
				}
			case 1:
				pc.TargetMax = max(1, m.max/2)
			case 2:
				pc.TargetMax = 1 + uint64(rng.Intn(5))
			default:
				pc.TargetMax = max(1, m.max)
			}
			pc.TargetMax = min(pc.TargetMax, lim)
		}
	}
	tcfg := pc.Cfg
	if tcfg.Bounded() {
		tcfg.Maximum = pc.TargetMax
	}
	tgt, err := NewEnv(tcfg, false)
	if err != nil {
		out.mismatch = "cannot build target: " + err.Error()
		return
	}
	defer tgt.Close()
	loadTime := saveTime
	if pc.Cfg.WithTime() {
		loadTime = sat(saveTime, pc.Offset)
		tgt.Clock.now.Store(loadTime)
	}
	if filePath != "" {
		if err := otter.LoadCacheFromFile(tgt.Cache, filePath); err != nil {
			out.mismatch = fmt.Sprintf("LoadCacheFromFile (via_file=%d): %v", pc.ViaFile, err)
			return
		}
	} else if err := otter.LoadCacheFrom(tgt.Cache, &buf); err != nil {
		out.mismatch = "LoadCacheFrom: " + err.Error()
		return
	}
	tgt.Cache.CleanUp()

	// what must be there
	want := map[int]ent{}
	var wantWeight uint64
	for k, e := range live {
		out.saved++
		if pc.Cfg.WithExp() && e.exp <= loadTime {
			out.expired++
			continue
		}
		want[k] = e
		wantWeight += uint64(e.w)
		if e.w == 0 {
			out.zeroW++
		}
	}
	tmax := pc.TargetMax
	if !pc.Cfg.Bounded() {
		tmax = ^uint64(0)
	}
	out.fits = wantWeight <= tmax
	got := map[int]otter.Entry[int, int]{}
	for k := range tgt.Cache.Keys() {
		if en, ok := tgt.Cache.GetEntryQuietly(k); ok {
			got[k] = en
		}
	}
	out.loaded = len(got)
	var gotWeight uint64
	for k, en := range got {
		e, ok := want[k]
		if !ok {
			if s, was := live[k]; was {
				out.mismatch = fmt.Sprintf("key %d (value %d) was loaded although its deadline %d is not after the load time %d", k, en.Value, s.exp, loadTime)
			} else {
				out.mismatch = fmt.Sprintf("key %d (value %d) was loaded although it was not live in the saved cache", k, en.Value)
			}
			return
		}
		if en.Value != e.v || en.Weight != e.w {
			out.mismatch = fmt.Sprintf("key %d loaded as value %d weight %d, saved as value %d weight %d", k, en.Value, en.Weight, e.v, e.w)
			return
		}
		if en.ExpiresAtNano != e.exp {
			out.mismatch = fmt.Sprintf("key %d: ExpiresAtNano %d after the load, %d when saved (save time %d, load time %d)", k, en.ExpiresAtNano, e.exp, saveTime, loadTime)
			return
		}
		if pc.Cfg.WithRef() {
			if e.ref > loadTime {
				if en.RefreshableAtNano != e.ref {
					out.mismatch = fmt.Sprintf("key %d: RefreshableAtNano %d after the load, %d when saved (load time %d)", k, en.RefreshableAtNano, e.ref, loadTime)
					return
				}
			} else {
				out.dueRef++
				if en.RefreshableAtNano > sat(loadTime, 1) {
					out.mismatch = fmt.Sprintf("key %d was due for refresh when saved (%d <= load time %d) but is loaded as refreshable at %d", k, e.ref, loadTime, en.RefreshableAtNano)
					return
				}
			}
		}
		gotWeight += uint64(en.Weight)
	}
	if out.fits {
		for k, e := range want {
			if _, ok := got[k]; !ok {
				out.mismatch = fmt.Sprintf("key %d (value %d weight %d deadline %d) is missing after the load although the unexpired saved weight %d fits the target maximum %d (load time %d)",
					k, e.v, e.w, e.exp, wantWeight, tmax, loadTime)
				return
			}
		}
	} else if gotWeight > tmax {
		out.mismatch = fmt.Sprintf("the loaded cache holds weight %d above its maximum %d", gotWeight, tmax)
	}
	return
}

// RunPersist runs the round-trip cases of one shard (property C19).
func RunPersist(col *core.Collector, tier string, seed uint64, shard, nshards int, replayDir string) {
	runPersistFor(col, "C19", tier, seed, shard, nshards, replayDir)
}

// RunPersistExpired is the persistence part of C03: the same round trips under an expiry policy, a quarter as
// many, judged by one relation only - nothing that was expired at the load time (or absent) is loaded.
func RunPersistExpired(col *core.Collector, tier string, seed uint64, shard, nshards int, replayDir string) {
	runPersistFor(col, "C03", tier, seed, shard, nshards, replayDir)
}

func runPersistFor(col *core.Collector, prop, tier string, seed uint64, shard, nshards int, replayDir string) {
	col.Note("rule: a source cache driven by a generated sequence is saved, the clock is offset (0, small, exactly a deadline, large) and the data is loaded into an empty cache of the same configuration with an equal, larger or smaller maximum; non-trivial = at least 2 entries saved; distinct = hash of (config, ops, offset, target maximum)")
	n := 24000
	if tier == "thorough" {
		n = 1500000
	}
	prof := Profiles["mix"]
	if prop == "C03" {
		n /= 4
		prof = Profiles["expiry"]
	}
	for i := shard; i < n; i += nshards {
		rng := core.NewRng(core.Derive(seed, core.StrLabel("C19"), uint64(i)))
		if prop != "C19" {
			rng = core.NewRng(core.Derive(seed, core.StrLabel(prop), core.StrLabel("persist"), uint64(i)))
		}
		pc := &PersistCase{Engine: "persist", Seed: seed, Index: i, Cfg: GenConfig(rng, prof)}
		nops := 10 + rng.Intn(120)
		out := runPersist(pc, true, nops, rng)
		col.Eval(1)
		if out.srcFailed {
			col.Count("source_sequence_stopped_on_mismatch", 1)
			continue
		}
		if pc.ViaFile != 0 {
			col.Count("round_trips_through_a_file", 1)
		}
		if pc.ViaFile == 2 {
			col.Count("round_trips_over_an_older_larger_snapshot", 1)
		}
		col.Count("entries_saved", int64(out.saved))
		col.Count("entries_expired_at_load", int64(out.expired))
		col.Count("entries_loaded", int64(out.loaded))
		col.Count("zero_weight_entries", int64(out.zeroW))
		col.Count("entries_due_for_refresh", int64(out.dueRef))
		if out.fits {
			col.Count("round_trips_that_fit", 1)
		} else {
			col.Count("round_trips_over_target_maximum", 1)
		}
		if out.saved >= 2 {
			col.NonTrivial(core.HashJSON(pc))
		}
		if col.NumSamples() < 2 && out.saved >= 2 {
			col.Sample(map[string]any{"config": pc.Cfg, "ops": len(pc.Ops), "offset": pc.Offset, "target_max": pc.TargetMax, "saved": out.saved, "loaded": out.loaded})
		}
		if prop == "C03" {
			col.Count("persist.round_trips", 1)
			col.Count("persist.entries_expired_at_load", int64(out.expired))
			if out.mismatch != "" && !strings.Contains(out.mismatch, "was loaded although") {
				col.Count("stopped_on_other_class.persist", 1)
				continue
			}
		}
		if out.mismatch != "" {
			path := filepath.Join(replayDir, fmt.Sprintf("%s-persist-%x.json", prop, core.HashJSON(pc)))
			data, _ := json.MarshalIndent(map[string]any{"persist_case": pc, "mismatch": out.mismatch, "ops_readable": opStrings(pc.Ops)}, "", " ")
			os.WriteFile(path, data, 0o644)
			col.Violation(core.Violation{Property: prop, Signature: "persist:" + sigOf(out.mismatch), Detail: out.mismatch + fmt.Sprintf(" (config %+v, offset %d, target maximum %d)", pc.Cfg, pc.Offset, pc.TargetMax), Replay: path})
			if col.NumViolations() >= 8 {
				break
			}
		}
	}
}

// ReplayPersist re-executes a round trip from a replay file.
func ReplayPersist(col *core.Collector, data []byte, path string) error {
	var w struct {
		Case PersistCase `json:"persist_case"`
	}
	if err := json.Unmarshal(data, &w); err != nil {
		return err
	}
	for i := range w.Case.Ops {
		for k, n := range opNames {
			if n == w.Case.Ops[i].Name {
				w.Case.Ops[i].Kind = k
			}
		}
	}
	out := runPersist(&w.Case, false, 0, nil)
	col.Eval(1)
	for i, o := range w.Case.Ops {
		fmt.Printf("%3d %s\n", i, o.String())
	}
	fmt.Printf("save, offset %d, load into maximum %d: saved %d loaded %d\n", w.Case.Offset, w.Case.TargetMax, out.saved, out.loaded)
	if out.mismatch != "" {
		fmt.Println("mismatch:", out.mismatch)
		col.Violation(core.Violation{Property: "C19", Signature: "persist:" + sigOf(out.mismatch), Detail: out.mismatch, Replay: path})
	}
	return nil
}
