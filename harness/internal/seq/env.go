// Package seq is the single-goroutine differential monitor: the real cache is driven by a
// generated operation sequence with a manual clock and a same-goroutine executor; every callback
// the cache makes (weigher, calculators, loaders, deletion handlers, stats recorder, compute
// functions) is appended to one ordered log, and a reference model replays that log.
package seq

import (
	"context"
	"errors"
	"fmt"
	"math"
	"sync/atomic"
	"time"

	"github.com/maypok86/otter/v2"
	"github.com/maypok86/otter/v2/stats"

	"otterverif/internal/core"
)

const maxI64 = int64(math.MaxInt64)

// ---- configuration -------------------------------------------------------------------------

const (
	SizeNone = iota
	SizeCount
	SizeWeight
)

const (
	ExpNone = iota
	ExpCreating
	ExpWriting
	ExpAccessing
	ExpCreatingFunc
	ExpWritingFunc
	ExpAccessingFunc
	ExpCustom
)

const (
	RefNone = iota
	RefCreating
	RefWriting
	RefCreatingFunc
	RefWritingFunc
	RefCustom
)

// Config describes one cache configuration. Everything random at run time (durations, weights)
// is a pure function of (Seed, arguments), so the model can compute it too.
type Config struct {
	SizeKind    int    `json:"size_kind"`
	Maximum     uint64 `json:"maximum"`
	ExpKind     int    `json:"exp_kind"`
	ExpBase     int64  `json:"exp_base"`
	RefKind     int    `json:"ref_kind"`
	RefBase     int64  `json:"ref_base"`
	Stats       bool   `json:"stats"`
	InitCap     int    `json:"init_cap"`
	ClockOrigin int64  `json:"clock_origin"`
	Seed        uint64 `json:"seed"`
	DurMode     int    `json:"dur_mode"` // 0 small, 1 mixed, 2 huge
	WeightMode  int    `json:"weight_mode"`
	Keys        int    `json:"keys"`
	WBase       uint64 `json:"w_base"`                    // the weigher is built around this value (the source's maximum)
	Queued      bool   `json:"queued_executor,omitempty"` // the executor only queues; tasks run when the case says so
}

func (c *Config) WithExp() bool  { return c.ExpKind != ExpNone }
func (c *Config) WithRef() bool  { return c.RefKind != RefNone }
func (c *Config) WithTime() bool { return c.WithExp() || c.WithRef() }
func (c *Config) Bounded() bool  { return c.SizeKind != SizeNone }
func (c *Config) Weighted() bool { return c.SizeKind == SizeWeight }

// expClass: 1 creating, 2 writing, 3 accessing, 4 custom.
func (c *Config) expClass() int {
	switch c.ExpKind {
	case ExpCreating, ExpCreatingFunc:
		return 1
	case ExpWriting, ExpWritingFunc:
		return 2
	case ExpAccessing, ExpAccessingFunc:
		return 3
	case ExpCustom:
		return 4
	}
	return 0
}

// refClass: 1 creating, 2 writing, 4 custom.
func (c *Config) refClass() int {
	switch c.RefKind {
	case RefCreating, RefCreatingFunc:
		return 1
	case RefWriting, RefWritingFunc:
		return 2
	case RefCustom:
		return 4
	}
	return 0
}

// pickDur draws a duration in [1, MaxInt64] from the configured distribution using hash h.
func (c *Config) pickDur(h uint64) int64 {
	r := core.NewRng(h)
	mode := c.DurMode
	if mode == 1 {
		mode = []int{0, 0, 0, 2, 3}[r.Intn(5)]
	}
	switch mode {
	case 0: // small: 1ns .. ~20s, log-uniform
		exp := r.Intn(35)
		return int64(1)<<exp + int64(r.U64()%(uint64(1)<<exp))
	case 2: // long: minutes .. years
		exp := 35 + r.Intn(27)
		return int64(1)<<exp + int64(r.U64()%(uint64(1)<<exp))
	default: // extreme
		switch r.Intn(4) {
		case 0:
			return maxI64
		case 1:
			return maxI64 - int64(r.Intn(3))
		case 2:
			d := maxI64 - c.ClockOrigin + int64(r.Intn(5)) - 2
			if d < 1 {
				d = 1
			}
			return d
		default:
			return maxI64/2 + int64(r.U64()%uint64(maxI64/2))
		}
	}
}

// Calc kinds (also log sub kinds).
const (
	CkExpCreate = iota
	CkExpUpdate
	CkExpRead
	CkRefCreate
	CkRefUpdate
	CkRefReload
	CkRefReloadFailure
)

var calcNames = []string{"ExpireAfterCreate", "ExpireAfterUpdate", "ExpireAfterRead", "RefreshAfterCreate", "RefreshAfterUpdate", "RefreshAfterReload", "RefreshAfterReloadFailure"}

// funcDur is the duration the harness's func/custom calculators return for (kind, key, value).
func (c *Config) funcDur(kind, key, value int) int64 {
	switch c.ExpKind {
	case ExpCreatingFunc, ExpWritingFunc, ExpAccessingFunc:
		if kind <= CkExpRead {
			kind = 100 // one function f(entry) for the whole calculator
		}
	}
	switch c.RefKind {
	case RefCreatingFunc, RefWritingFunc:
		if kind >= CkRefCreate {
			kind = 101
		}
	}
	return c.pickDur(core.Derive(c.Seed, 7, uint64(kind), uint64(key), uint64(value)))
}

// weightFor is the weigher of weighted caches.
func (c *Config) weightFor(key, value int) uint32 {
	r := core.NewRng(core.Derive(c.Seed, 11, uint64(key), uint64(value)))
	m := c.WBase
	switch c.WeightMode {
	case 0: // small weights
		return uint32(r.Intn(4))
	case 1: // around the maximum
		opts := []uint64{0, 1, 1, 2, m / 2, m, m + 1, m - 1, 3}
		w := opts[r.Intn(len(opts))]
		if w > math.MaxUint32 {
			w = math.MaxUint32
		}
		return uint32(w)
	default:
		opts := []uint64{0, 1, 2, 5, m, m + 1, math.MaxUint32, math.MaxUint32 - 1}
		w := opts[r.Intn(len(opts))]
		if w > math.MaxUint32 {
			w = math.MaxUint32
		}
		return uint32(w)
	}
}

// ---- event log -----------------------------------------------------------------------------

const (
	EvWeigher = iota
	EvCalc
	EvAtomic
	EvDeletion
	EvLoadEnter
	EvLoadExit
	EvCallback
	EvStat
	EvExecPanic
	EvLogger
	EvNested
	EvClockAdv // the clock moved while a loader was running (N = by how much)
)

const (
	LkLoad = iota
	LkReload
	LkBulkLoad
	LkBulkReload
)

var loaderNames = []string{"Load", "Reload", "BulkLoad", "BulkReload"}

const (
	OutValue = iota
	OutError
	OutNotFound
	OutPanic
	OutNotFoundWrapped
)

const (
	StHit = iota
	StMiss
	StEviction
	StLoadSuccess
	StLoadFailure
)

type Event struct {
	Kind   int
	Sub    int
	Key    int
	Val    int
	Old    int
	Weight uint32
	Entry  otter.Entry[int, int]
	Dur    int64
	Keys   []int
	Olds   []int
	Res    map[int]int
	Out    int
	N      int64
	Found  bool
}

func (e Event) String() string {
	switch e.Kind {
	case EvWeigher:
		return fmt.Sprintf("weigher(%d,%d)=%d", e.Key, e.Val, e.Weight)
	case EvCalc:
		return fmt.Sprintf("%s(k=%d v=%d exp=%d ref=%d snap=%d old=%d)=%d", calcNames[e.Sub], e.Entry.Key, e.Entry.Value,
			e.Entry.ExpiresAtNano, e.Entry.RefreshableAtNano, e.Entry.SnapshotAtNano, e.Old, e.Dur)
	case EvAtomic:
		return fmt.Sprintf("atomicDeletion(%d,%d,%s)", e.Key, e.Val, otter.DeletionCause(e.Sub))
	case EvDeletion:
		return fmt.Sprintf("deletion(%d,%d,%s)", e.Key, e.Val, otter.DeletionCause(e.Sub))
	case EvLoadEnter:
		return fmt.Sprintf("%s.enter(key=%d old=%d keys=%v olds=%v)", loaderNames[e.Sub], e.Key, e.Old, e.Keys, e.Olds)
	case EvLoadExit:
		return fmt.Sprintf("%s.exit(key=%d val=%d res=%v out=%d)", loaderNames[e.Sub], e.Key, e.Val, e.Res, e.Out)
	case EvCallback:
		return fmt.Sprintf("callback(key=%d old=%d found=%v)", e.Key, e.Old, e.Found)
	case EvStat:
		return fmt.Sprintf("stat(%d,%d)", e.Sub, e.N)
	case EvExecPanic:
		return "executor task panicked"
	case EvLogger:
		return "logger.Error"
	case EvClockAdv:
		return fmt.Sprintf("clock advanced by %d inside the loader", e.N)
	case EvNested:
		return fmt.Sprintf("nested no-op compute %d (key=%d) saw (%d,%v)", e.Sub, e.Key, e.Old, e.Found)
	}
	return "?"
}

// ---- manual clock --------------------------------------------------------------------------

type ManualClock struct {
	now  atomic.Int64
	tick chan time.Time
}

func NewManualClock(origin int64) *ManualClock {
	c := &ManualClock{tick: make(chan time.Time)}
	c.now.Store(origin)
	return c
}

func (c *ManualClock) NowNano() int64 { return c.now.Load() }

func (c *ManualClock) Tick(time.Duration) <-chan time.Time { return c.tick }

// Advance moves the clock forward, saturating at MaxInt64.
func (c *ManualClock) Advance(d int64) {
	n := c.now.Load()
	if d > maxI64-n {
		c.now.Store(maxI64)
		return
	}
	c.now.Store(n + d)
}

// ---- environment ---------------------------------------------------------------------------

var errBoom = errors.New("loader failed")

// boomFor is the failure of a loader: always errBoom (errors.Is), for half of the invocations wrapped together
// with a context error - a loader that gave up because its context was done has failed like any other.
func boomFor(x int) error {
	switch x % 4 {
	case 1:
		return fmt.Errorf("%w: %w", errBoom, context.Canceled)
	case 2:
		return fmt.Errorf("%w: %w", errBoom, context.DeadlineExceeded)
	}
	return errBoom
}

type loadPlan struct {
	Out     int    // outcome of a single load / of a bulk load
	Shape   int    // bulk: 0 full, 1 partial, 2 extra, 3 empty map, 4 nil map, 5 partial with extra keys
	Mask    uint64 // which requested keys a partial result contains
	Extra   []int  // extra keys volunteered
	PanicOf int    // 0 error value, 1 string, 2 the ErrNotFound value, 3 an error wrapping ErrNotFound
	Nested  int    // 1: Compute answering CancelOp, 2: ComputeIfAbsent answering cancel, run on the key from inside the loader
	Adv     int64  // the loader takes this long on the cache's clock
}

// Env wires one cache to the log.
type Env struct {
	Cfg     Config
	Clock   *ManualClock
	Cache   *otter.Cache[int, int]
	Counter *stats.Counter
	Log     []Event
	nextVal int
	plans   [4]loadPlan // per loader kind for the current operation
	Queue   []func()    // queued executor tasks (queued mode)
	Queued  bool
}

func (e *Env) add(ev Event) { e.Log = append(e.Log, ev) }

// NewValue returns a value never used before in this case.
func (e *Env) NewValue() int {
	e.nextVal++
	return 1_000_000 + e.nextVal
}

type recExpiry struct {
	e     *Env
	inner otter.ExpiryCalculator[int, int]
}

func (r *recExpiry) ExpireAfterCreate(en otter.Entry[int, int]) time.Duration {
	d := r.inner.ExpireAfterCreate(en)
	r.e.add(Event{Kind: EvCalc, Sub: CkExpCreate, Entry: en, Dur: int64(d)})
	return d
}

func (r *recExpiry) ExpireAfterUpdate(en otter.Entry[int, int], old int) time.Duration {
	d := r.inner.ExpireAfterUpdate(en, old)
	r.e.add(Event{Kind: EvCalc, Sub: CkExpUpdate, Entry: en, Old: old, Dur: int64(d)})
	return d
}

func (r *recExpiry) ExpireAfterRead(en otter.Entry[int, int]) time.Duration {
	d := r.inner.ExpireAfterRead(en)
	r.e.add(Event{Kind: EvCalc, Sub: CkExpRead, Entry: en, Dur: int64(d)})
	return d
}

type customExpiry struct{ c *Config }

func (x *customExpiry) ExpireAfterCreate(en otter.Entry[int, int]) time.Duration {
	return time.Duration(x.c.funcDur(CkExpCreate, en.Key, en.Value))
}

func (x *customExpiry) ExpireAfterUpdate(en otter.Entry[int, int], old int) time.Duration {
	return time.Duration(x.c.funcDur(CkExpUpdate, en.Key, en.Value))
}

func (x *customExpiry) ExpireAfterRead(en otter.Entry[int, int]) time.Duration {
	return time.Duration(x.c.funcDur(CkExpRead, en.Key, en.Value))
}

type recRefresh struct {
	e     *Env
	inner otter.RefreshCalculator[int, int]
}

func (r *recRefresh) RefreshAfterCreate(en otter.Entry[int, int]) time.Duration {
	d := r.inner.RefreshAfterCreate(en)
	r.e.add(Event{Kind: EvCalc, Sub: CkRefCreate, Entry: en, Dur: int64(d)})
	return d
}

func (r *recRefresh) RefreshAfterUpdate(en otter.Entry[int, int], old int) time.Duration {
	d := r.inner.RefreshAfterUpdate(en, old)
	r.e.add(Event{Kind: EvCalc, Sub: CkRefUpdate, Entry: en, Old: old, Dur: int64(d)})
	return d
}

func (r *recRefresh) RefreshAfterReload(en otter.Entry[int, int], old int) time.Duration {
	d := r.inner.RefreshAfterReload(en, old)
	r.e.add(Event{Kind: EvCalc, Sub: CkRefReload, Entry: en, Old: old, Dur: int64(d)})
	return d
}

func (r *recRefresh) RefreshAfterReloadFailure(en otter.Entry[int, int], err error) time.Duration {
	d := r.inner.RefreshAfterReloadFailure(en, err)
	r.e.add(Event{Kind: EvCalc, Sub: CkRefReloadFailure, Entry: en, Dur: int64(d)})
	return d
}

type customRefresh struct{ c *Config }

func (x *customRefresh) RefreshAfterCreate(en otter.Entry[int, int]) time.Duration {
	return time.Duration(x.c.funcDur(CkRefCreate, en.Key, en.Value))
}

func (x *customRefresh) RefreshAfterUpdate(en otter.Entry[int, int], old int) time.Duration {
	return time.Duration(x.c.funcDur(CkRefUpdate, en.Key, en.Value))
}

func (x *customRefresh) RefreshAfterReload(en otter.Entry[int, int], old int) time.Duration {
	return time.Duration(x.c.funcDur(CkRefReload, en.Key, en.Value))
}

func (x *customRefresh) RefreshAfterReloadFailure(en otter.Entry[int, int], err error) time.Duration {
	return time.Duration(x.c.funcDur(CkRefReloadFailure, en.Key, en.Value))
}

type teeStats struct {
	e *Env
	c *stats.Counter
}

func (t *teeStats) RecordHits(n int) {
	t.e.add(Event{Kind: EvStat, Sub: StHit, N: int64(n)})
	t.c.RecordHits(n)
}

func (t *teeStats) RecordMisses(n int) {
	t.e.add(Event{Kind: EvStat, Sub: StMiss, N: int64(n)})
	t.c.RecordMisses(n)
}

func (t *teeStats) RecordEviction(w uint32) {
	t.e.add(Event{Kind: EvStat, Sub: StEviction, N: int64(w)})
	t.c.RecordEviction(w)
}

func (t *teeStats) RecordLoadSuccess(d time.Duration) {
	t.e.add(Event{Kind: EvStat, Sub: StLoadSuccess, N: int64(d)})
	t.c.RecordLoadSuccess(d)
}

func (t *teeStats) RecordLoadFailure(d time.Duration) {
	t.e.add(Event{Kind: EvStat, Sub: StLoadFailure, N: int64(d)})
	t.c.RecordLoadFailure(d)
}

func (t *teeStats) Snapshot() stats.Stats { return t.c.Snapshot() }

type recLogger struct{ e *Env }

func (l *recLogger) Warn(ctx context.Context, msg string, err error)  {}
func (l *recLogger) Error(ctx context.Context, msg string, err error) { l.e.add(Event{Kind: EvLogger}) }

// NewEnv builds the cache for cfg.
func NewEnv(cfg Config, queued bool) (*Env, error) {
	e := &Env{Cfg: cfg, Clock: NewManualClock(cfg.ClockOrigin), Queued: queued}
	o := &otter.Options[int, int]{
		InitialCapacity: cfg.InitCap,
		Clock:           e.Clock,
		Logger:          &recLogger{e},
	}
	switch cfg.SizeKind {
	case SizeCount:
		o.MaximumSize = int(cfg.Maximum)
	case SizeWeight:
		o.MaximumWeight = cfg.Maximum
		o.Weigher = func(k, v int) uint32 {
			w := e.Cfg.weightFor(k, v)
			e.add(Event{Kind: EvWeigher, Key: k, Val: v, Weight: w})
			return w
		}
	}
	c := &e.Cfg
	fexp := func(en otter.Entry[int, int]) time.Duration { return time.Duration(c.funcDur(100, en.Key, en.Value)) }
	switch cfg.ExpKind {
	case ExpCreating:
		o.ExpiryCalculator = &recExpiry{e, otter.ExpiryCreating[int, int](time.Duration(cfg.ExpBase))}
	case ExpWriting:
		o.ExpiryCalculator = &recExpiry{e, otter.ExpiryWriting[int, int](time.Duration(cfg.ExpBase))}
	case ExpAccessing:
		o.ExpiryCalculator = &recExpiry{e, otter.ExpiryAccessing[int, int](time.Duration(cfg.ExpBase))}
	case ExpCreatingFunc:
		o.ExpiryCalculator = &recExpiry{e, otter.ExpiryCreatingFunc(fexp)}
	case ExpWritingFunc:
		o.ExpiryCalculator = &recExpiry{e, otter.ExpiryWritingFunc(fexp)}
	case ExpAccessingFunc:
		o.ExpiryCalculator = &recExpiry{e, otter.ExpiryAccessingFunc(fexp)}
	case ExpCustom:
		o.ExpiryCalculator = &recExpiry{e, &customExpiry{c}}
	}
	fref := func(en otter.Entry[int, int]) time.Duration { return time.Duration(c.funcDur(101, en.Key, en.Value)) }
	switch cfg.RefKind {
	case RefCreating:
		o.RefreshCalculator = &recRefresh{e, otter.RefreshCreating[int, int](time.Duration(cfg.RefBase))}
	case RefWriting:
		o.RefreshCalculator = &recRefresh{e, otter.RefreshWriting[int, int](time.Duration(cfg.RefBase))}
	case RefCreatingFunc:
		o.RefreshCalculator = &recRefresh{e, otter.RefreshCreatingFunc(fref)}
	case RefWritingFunc:
		o.RefreshCalculator = &recRefresh{e, otter.RefreshWritingFunc(fref)}
	case RefCustom:
		o.RefreshCalculator = &recRefresh{e, &customRefresh{c}}
	}
	if cfg.Stats {
		e.Counter = stats.NewCounter()
		o.StatsRecorder = &teeStats{e, e.Counter}
	}
	o.OnAtomicDeletion = func(ev otter.DeletionEvent[int, int]) {
		e.add(Event{Kind: EvAtomic, Sub: int(ev.Cause), Key: ev.Key, Val: ev.Value})
	}
	o.OnDeletion = func(ev otter.DeletionEvent[int, int]) {
		e.add(Event{Kind: EvDeletion, Sub: int(ev.Cause), Key: ev.Key, Val: ev.Value})
	}
	o.Executor = func(fn func()) {
		if e.Queued {
			e.Queue = append(e.Queue, fn)
			return
		}
		e.runTask(fn)
	}
	cache, err := otter.New(o)
	if err != nil {
		return nil, err
	}
	e.Cache = cache
	return e, nil
}

// runTask runs an executor task, recovering a panic (a panicking reload re-raises in its task).
func (e *Env) runTask(fn func()) {
	defer func() {
		if r := recover(); r != nil {
			e.add(Event{Kind: EvExecPanic})
		}
	}()
	fn()
}

func (e *Env) Close() {
	if e.Cache != nil {
		e.Cache.StopAllGoroutines()
		// The cache's handlers reference this Env; dropping the back reference makes the *Cache
		// unreachable from its own cleanup argument, otherwise it is never collected.
		e.Cache = nil
	}
}

// ---- loaders -------------------------------------------------------------------------------

type panicVal struct{ s string }

func (p panicVal) Error() string { return p.s }

// nested runs a computation that changes nothing on a key whose load is in flight (the loader runs
// outside the table's locks, so this is legal): the load must be unaffected by it.
func (e *Env) nested(which, key int) {
	var saw int
	var found bool
	switch which {
	case 1:
		e.Cache.Compute(key, func(old int, f bool) (int, otter.ComputeOp) {
			saw, found = old, f
			return 0, otter.CancelOp
		})
	case 2:
		saw, found = e.Cache.ComputeIfAbsent(key, func() (int, bool) { return 0, true })
	default:
		return
	}
	e.add(Event{Kind: EvNested, Sub: which, Key: key, Old: saw, Found: found})
}

// slow lets the loader take time on the cache's clock: everything the cache stamps after the loader
// returned (deadlines of what it installs, expiry of what it replaces) must use the later reading.
func (e *Env) slow(adv int64) {
	if adv <= 0 || !e.Cfg.WithTime() {
		return
	}
	before := e.Clock.NowNano()
	e.Clock.Advance(adv)
	e.add(Event{Kind: EvClockAdv, N: e.Clock.NowNano() - before})
}

func (e *Env) single(kind, key, old int) (int, error) {
	e.add(Event{Kind: EvLoadEnter, Sub: kind, Key: key, Old: old})
	p := e.plans[kind]
	e.slow(p.Adv)
	if kind == LkLoad { // (on a live key - a reload - the computation counts as a read and moves deadlines)
		e.nested(p.Nested, key)
	}
	v := e.NewValue()
	switch p.Out {
	case OutValue:
		e.add(Event{Kind: EvLoadExit, Sub: kind, Key: key, Val: v, Out: OutValue})
		return v, nil
	case OutError:
		e.add(Event{Kind: EvLoadExit, Sub: kind, Key: key, Val: v, Out: OutError})
		return v, boomFor(v)
	case OutNotFound:
		e.add(Event{Kind: EvLoadExit, Sub: kind, Key: key, Val: 0, Out: OutNotFound})
		return 0, otter.ErrNotFound
	case OutNotFoundWrapped:
		e.add(Event{Kind: EvLoadExit, Sub: kind, Key: key, Val: v, Out: OutNotFound})
		return v, fmt.Errorf("wrapped: %w", otter.ErrNotFound)
	default:
		e.add(Event{Kind: EvLoadExit, Sub: kind, Key: key, Out: OutPanic})
		switch p.PanicOf {
		case 0:
			panic(panicVal{"loader panic"})
		case 2:
			panic(otter.ErrNotFound) // a panic is a failure whatever its value is: it is not a "not found" answer
		case 3:
			panic(fmt.Errorf("must: %w", otter.ErrNotFound))
		}
		panic("loader panic string")
	}
}

func (e *Env) bulk(kind int, keys, olds []int) (map[int]int, error) {
	e.add(Event{Kind: EvLoadEnter, Sub: kind, Keys: append([]int(nil), keys...), Olds: append([]int(nil), olds...)})
	p := e.plans[kind]
	e.slow(p.Adv)
	if len(keys) > 0 && kind == LkBulkLoad {
		e.nested(p.Nested, keys[int(p.Mask>>32)%len(keys)])
	}
	switch p.Out {
	case OutPanic:
		e.add(Event{Kind: EvLoadExit, Sub: kind, Out: OutPanic})
		switch p.PanicOf {
		case 0:
			panic(panicVal{"bulk loader panic"})
		case 2:
			panic(otter.ErrNotFound)
		case 3:
			panic(fmt.Errorf("must: %w", otter.ErrNotFound))
		}
		panic("bulk loader panic string")
	case OutError:
		if p.Shape == 2 || p.Shape == 5 {
			// a failing loader that hands back a map all the same (requested and unrequested keys): the
			// load has failed, nothing of it may reach the cache
			res := map[int]int{}
			for _, k := range keys {
				res[k] = e.NewValue()
			}
			for _, k := range p.Extra {
				res[k] = e.NewValue()
			}
			cp := make(map[int]int, len(res))
			for k, v := range res {
				cp[k] = v
			}
			e.add(Event{Kind: EvLoadExit, Sub: kind, Res: cp, Out: OutError})
			return res, boomFor(e.NewValue())
		}
		e.add(Event{Kind: EvLoadExit, Sub: kind, Out: OutError})
		return nil, boomFor(e.NewValue())
	case OutNotFound, OutNotFoundWrapped:
		e.add(Event{Kind: EvLoadExit, Sub: kind, Out: OutNotFound})
		return nil, otter.ErrNotFound
	}
	var res map[int]int
	switch p.Shape {
	case 0, 2:
		res = map[int]int{}
		for _, k := range keys {
			res[k] = e.NewValue()
		}
		if p.Shape == 2 {
			for _, k := range p.Extra {
				if _, ok := res[k]; !ok {
					res[k] = e.NewValue()
				}
			}
		}
	case 1, 5:
		res = map[int]int{}
		for _, k := range keys {
			if p.Mask&(1<<uint(k&63)) != 0 {
				res[k] = e.NewValue()
			}
		}
		if p.Shape == 5 { // partial and volunteering: some requested keys are missing, unrequested ones are supplied
			for _, k := range p.Extra {
				if _, ok := res[k]; !ok {
					res[k] = e.NewValue()
				}
			}
		}
	case 3:
		res = map[int]int{}
	default:
		res = nil
	}
	cp := make(map[int]int, len(res))
	for k, v := range res {
		cp[k] = v
	}
	e.add(Event{Kind: EvLoadExit, Sub: kind, Res: cp, Out: OutValue})
	return res, nil
}

type envLoader struct{ e *Env }

func (l envLoader) Load(ctx context.Context, key int) (int, error) { return l.e.single(LkLoad, key, 0) }
func (l envLoader) Reload(ctx context.Context, key, old int) (int, error) {
	return l.e.single(LkReload, key, old)
}

type envBulkLoader struct{ e *Env }

func (l envBulkLoader) BulkLoad(ctx context.Context, keys []int) (map[int]int, error) {
	return l.e.bulk(LkBulkLoad, keys, nil)
}

func (l envBulkLoader) BulkReload(ctx context.Context, keys []int, olds []int) (map[int]int, error) {
	return l.e.bulk(LkBulkReload, keys, olds)
}
