package seq

import (
	"encoding/json"
	"fmt"
	"os"
	"path/filepath"
	"strings"

	"otterverif/internal/core"
)

// Case is a replayable sequential case.
type Case struct {
	Engine  string `json:"engine"`
	Prop    string `json:"property"`
	Profile string `json:"profile"`
	Seed    uint64 `json:"seed"`
	Index   int    `json:"index"`
	Cfg     Config `json:"config"`
	Ops     []Op   `json:"ops"`
}

func (c *Case) fix() {
	for i := range c.Ops {
		for k, n := range opNames {
			if n == c.Ops[i].Name {
				c.Ops[i].Kind = k
			}
		}
	}
}

// Replay executes the recorded operations verbatim. It returns the mismatches and the index of the failing operation.
func Replay(c *Case, cov *Coverage) ([]Mismatch, int, error) {
	r, err := NewRunner(c.Cfg, cov)
	if err != nil {
		return nil, 0, err
	}
	defer r.Env.Close()
	for i := range c.Ops {
		if mm := r.Step(&c.Ops[i]); len(mm) > 0 {
			return mm, i, nil
		}
	}
	if mm := r.Quiesce(); len(mm) > 0 {
		return mm, len(c.Ops) - 1, nil
	}
	return nil, -1, nil
}

// Quiesce (queued executor only) runs every queued task, one CleanUp and the tasks it queued, and
// then demands that every atomic deletion event has been delivered to OnDeletion.
func (r *Runner) Quiesce() []Mismatch {
	if !r.Env.Cfg.Queued {
		return nil
	}
	for _, op := range []Op{{Kind: OpRunTasks, Name: "RunTasks", Dur: 1 << 30}, {Kind: OpCleanUp, Name: "CleanUp"}, {Kind: OpRunTasks, Name: "RunTasks", Dur: 1 << 30}} {
		op := op
		if mm := r.Step(&op); len(mm) > 0 {
			return mm
		}
	}
	if n := len(r.M.unnotified); n > 0 {
		return []Mismatch{{Class: "event", Detail: fmt.Sprintf("after every executor task ran, %d values reported to OnAtomicDeletion were never delivered to OnDeletion, e.g. %s", n, r.M.unnotified[0])}}
	}
	if len(r.Env.Queue) > 0 {
		return []Mismatch{{Class: "event", Detail: "executor tasks keep being queued after quiescence"}}
	}
	return nil
}

// Generate runs a fresh case: operations are drawn online from the model state.
func Generate(prop string, prof *Profile, seed uint64, index, nops int, cov *Coverage) (*Case, []Mismatch, error) {
	rng := core.NewRng(core.Derive(seed, core.StrLabel(prop), core.StrLabel(prof.Name), uint64(index)))
	cfg := GenConfig(rng, prof)
	c := &Case{Engine: "seq", Prop: prop, Profile: prof.Name, Seed: seed, Index: index, Cfg: cfg}
	r, err := NewRunner(cfg, cov)
	if err != nil {
		return c, nil, err
	}
	defer r.Env.Close()
	g := &Gen{R: rng, P: prof, Cfg: &r.Env.Cfg}
	for i := 0; i < nops; i++ {
		op := g.Next(r.M)
		c.Ops = append(c.Ops, op)
		if mm := r.Step(&c.Ops[len(c.Ops)-1]); len(mm) > 0 {
			return c, mm, nil
		}
	}
	if mm := r.Quiesce(); len(mm) > 0 {
		return c, mm, nil
	}
	return c, nil, nil
}

// Shrink removes chunks of operations while the case still fails with the same class.
func Shrink(c *Case, class string) *Case {
	best := *c
	best.Ops = append([]Op(nil), c.Ops...)
	fails := func(ops []Op) (bool, int) {
		t := best
		t.Ops = ops
		var cov Coverage
		mm, at, err := Replay(&t, &cov)
		if err != nil || len(mm) == 0 {
			return false, 0
		}
		return mm[0].Class == class, at
	}
	if ok, at := fails(best.Ops); ok {
		best.Ops = best.Ops[:at+1]
	} else {
		return c
	}
	budget := 400
	for chunk := len(best.Ops) / 2; chunk >= 1 && budget > 0; chunk /= 2 {
		for start := 0; start+chunk < len(best.Ops) && budget > 0; {
			budget--
			cand := append(append([]Op(nil), best.Ops[:start]...), best.Ops[start+chunk:]...)
			if ok, at := fails(cand); ok {
				best.Ops = cand[:at+1]
			} else {
				start += chunk
			}
		}
	}
	return &best
}

// MaxCases, if positive, stops a shard early (debugging aid).
var MaxCases int

// CurrentFile, if set, receives the descriptor of the case about to run.
var CurrentFile string

// PropSpec says how a property uses the sequential engine.
type PropSpec struct {
	Profiles  []string
	Classes   []string // mismatch classes that refute the property ("*" = all)
	OpKinds   []int    // any mismatch of a state class during one of these operations refutes it too
	OnExpired bool     // ... and so does one during an operation applied to an expired-but-unswept key
	Quick     int      // cases
	Thorough  int
	MinOps    int
	MaxOps    int
	Rule      string
}

var Specs = map[string]*PropSpec{
	"C01": {Profiles: []string{"mix", "expiry", "size", "load", "refresh", "stats", "sweep", "queued", "sizeexp"}, Classes: []string{"*"}, Quick: 24000, Thorough: 2000000, MinOps: 80, MaxOps: 300,
		Rule: "a generated operation sequence (config, ops) run against the model after every operation; non-trivial = at least 20 operations and at least one of: automatic removal, operation on an expired-unswept key, loader invocation; distinct = hash of (config, ops)"},
	"C03": {Profiles: []string{"expiry"}, Classes: []string{"expired"}, OnExpired: true, Quick: 16000, Thorough: 1000000, MinOps: 60, MaxOps: 250,
		Rule: "expiry-biased sequence (clock moved exactly onto deadlines, no CleanUp) where every public operation is applied to expired-but-unswept keys; non-trivial = at least 3 operations hit an expired-unswept key; distinct = hash of (config, ops)"},
	"C07": {Profiles: []string{"size", "mix", "sweep", "queued", "sizeexp", "refresh"}, Classes: []string{"overflow", "bound", "early", "tooearly", "calcexp"}, Quick: 16000, Thorough: 1000000, MinOps: 80, MaxOps: 400,
		Rule: "size-biased sequence; every Overflow/Expiration event is judged against the model's total weight / deadline at that moment; non-trivial = at least one automatic removal; distinct = hash of (config, ops)"},
	"C10": {Profiles: []string{"load", "refresh"}, Classes: []string{"load"}, OpKinds: []int{OpGet, OpBulkGet, OpRefresh, OpBulkRefresh}, Quick: 16000, Thorough: 1000000, MinOps: 60, MaxOps: 200,
		Rule: "load-biased sequence with every loader outcome and bulk shape; non-trivial = at least 3 loader invocations with 2 different outcomes; distinct = hash of (config, ops)"},
	"C11": {Profiles: []string{"refresh"}, Classes: []string{"refresh", "load"}, OpKinds: []int{OpGet, OpBulkGet, OpRefresh, OpBulkRefresh}, Quick: 12000, Thorough: 800000, MinOps: 60, MaxOps: 200,
		Rule: "refresh-biased sequence (clock moved onto refresh deadlines); non-trivial = at least one reload and one manual refresh message; distinct = hash of (config, ops)"},
	"C12": {Profiles: []string{"expiry", "refresh", "sweep"}, Classes: []string{"deadline", "tooearly", "calc", "calcexp", "expired", "early"}, Quick: 16000, Thorough: 1000000, MinOps: 60, MaxOps: 250,
		Rule: "deadline-biased sequence; after every operation ExpiresAtNano/RefreshableAtNano of every key is compared with op time + calculator duration (saturating); non-trivial = at least 5 calculator consultations; distinct = hash of (config, ops)"},
	"C13": {Profiles: []string{"sweep"}, Classes: []string{"sweep", "unreported", "wheel", "expcause"}, Quick: 12000, Thorough: 800000, MinOps: 80, MaxOps: 400,
		Rule: "sweep-biased sequence (TTLs ns..years, clock jumps up to many wheel revolutions, CleanUp); at each CleanUp every entry older than one tick must be gone and reported; non-trivial = at least one CleanUp that judged an expired entry; distinct = hash of (config, ops)"},
	"C04": {Profiles: []string{"size", "queued", "sizeexp"}, Classes: []string{"bound"}, Quick: 6000, Thorough: 400000, MinOps: 80, MaxOps: 400,
		Rule: "sequential part: size-biased sequences, the weight total of the model's physical contents is compared with the maximum after every operation (same-goroutine executor, so maintenance has run)"},
	"C05": {Profiles: []string{"size", "mix", "queued", "sizeexp"}, Classes: []string{"views", "wheel"}, Quick: 6000, Thorough: 400000, MinOps: 80, MaxOps: 400,
		Rule: "sequential part: EstimatedSize, WeightedSize, GetMaximum, All/Keys/Values/Hottest/Coldest compared with the model after operations"},
	"C06": {Profiles: []string{"mix", "expiry", "size", "queued"}, Classes: []string{"event", "unreported", "expcause"}, Quick: 8000, Thorough: 500000, MinOps: 80, MaxOps: 300,
		Rule: "sequential part: the exact multiset of OnAtomicDeletion/OnDeletion events of every operation (own effects with Replacement/Invalidation/Expiration causes, automatic removals) is compared with the model"},
	"C20": {Profiles: []string{"stats", "load"}, Classes: []string{"stats"}, Quick: 10000, Thorough: 600000, MinOps: 80, MaxOps: 300,
		Rule: "sequence with a stats recorder; Stats() compared with the model's tallies after every operation; non-trivial = at least 10 counted lookups and one load; distinct = hash of (config, ops)"},
}

func (s *PropSpec) refutes(class string, opKind int, onExpired ...bool) bool {
	if s.OnExpired && len(onExpired) > 0 && onExpired[0] {
		switch class {
		case "ret", "event", "expcause", "unreported", "calc", "calcexp", "deadline", "tooearly", "views", "load", "refresh":
			return true // the operation treated a dead entry as if it were there
		}
	}
	for _, c := range s.Classes {
		if c == "*" || c == class {
			return true
		}
	}
	// the cache's state or an event deviates from the model during an operation the property is about
	switch class {
	case "ret", "event", "expcause", "unreported", "calc", "calcexp", "views", "expired":
		for _, k := range s.OpKinds {
			if k == opKind {
				return true
			}
		}
	}
	return false
}

func covTotals(c *Coverage) (removals, onExpired, loads, calcs int64) {
	removals = c.Events[3] + c.Events[4]
	for _, n := range c.OnExpired {
		onExpired += n
	}
	for i := range c.Loads {
		for _, n := range c.Loads[i] {
			loads += n
		}
	}
	for _, n := range c.CalcCalls {
		calcs += n
	}
	return
}

func nonTrivial(prop string, nops int, d *Coverage) bool {
	removals, onExpired, loads, calcs := covTotals(d)
	switch prop {
	case "C03":
		return onExpired >= 3
	case "C07":
		return removals >= 1
	case "C10":
		kinds := 0
		for o := 0; o < 5; o++ {
			n := int64(0)
			for i := range d.Loads {
				n += d.Loads[i][o]
			}
			if n > 0 {
				kinds++
			}
		}
		return loads >= 3 && kinds >= 2
	case "C11":
		return d.Loads[LkReload][0]+d.Loads[LkReload][1]+d.Loads[LkReload][2]+d.Loads[LkBulkReload][0] >= 1 && d.RefreshMsgs >= 1
	case "C12":
		return calcs >= 5
	case "C13":
		return d.SweepChecked >= 1
	case "C20":
		return d.Ops[OpGetIfPresent]+d.Ops[OpGetEntry]+d.Ops[OpGet]+d.Ops[OpCompute] >= 10 && loads >= 1
	}
	return nops >= 20 && (removals >= 1 || onExpired >= 1 || loads >= 1)
}

func (c *Coverage) add(d *Coverage) {
	for i := range c.Ops {
		c.Ops[i] += d.Ops[i]
		c.OnExpired[i] += d.OnExpired[i]
		c.OnLive[i] += d.OnLive[i]
		c.OnAbsent[i] += d.OnAbsent[i]
	}
	for i := range c.Events {
		c.Events[i] += d.Events[i]
	}
	for i := range c.Loads {
		for j := range c.Loads[i] {
			c.Loads[i][j] += d.Loads[i][j]
		}
	}
	for i := range c.CalcCalls {
		c.CalcCalls[i] += d.CalcCalls[i]
	}
	c.SweepChecked += d.SweepChecked
	c.Audits += d.Audits
	c.RefreshMsgs += d.RefreshMsgs
	c.Iterations += d.Iterations
}

func (c *Coverage) export(col *core.Collector) {
	var ops int64
	for i, n := range c.Ops {
		ops += n
		if n > 0 {
			col.Count("op."+opNames[i], n)
		}
		if c.OnExpired[i] > 0 {
			col.Count("on_expired_unswept."+opNames[i], c.OnExpired[i])
		}
	}
	col.Count("operations", ops)
	causes := []string{"", "Invalidation", "Replacement", "Overflow", "Expiration"}
	for i := 1; i <= 4; i++ {
		col.Count("events."+causes[i], c.Events[i])
	}
	outs := []string{"value", "error", "notfound", "panic", "notfound_wrapped"}
	for i := range c.Loads {
		for j, n := range c.Loads[i] {
			if n > 0 {
				col.Count("loads."+loaderNames[i]+"."+outs[j], n)
			}
		}
	}
	for i, n := range c.CalcCalls {
		if n > 0 {
			col.Count("calc."+calcNames[i], n)
		}
	}
	col.Count("sweep_entries_judged", c.SweepChecked)
	col.Count("structural_audits_after_cleanup", c.Audits)
	col.Count("refresh_messages", c.RefreshMsgs)
}

// RunProperty runs the sequential cases of one shard.
func RunProperty(col *core.Collector, prop, tier string, seed uint64, shard, nshards int, replayDir string) {
	spec := Specs[prop]
	if spec == nil {
		col.Inconclusive("no sequential spec for " + prop)
		return
	}
	col.Note("rule: " + spec.Rule)
	n := spec.Quick
	if tier == "thorough" {
		n = spec.Thorough
	}
	var total Coverage
	otherClasses := map[string]int{}
	done := 0
	for i := shard; i < n; i += nshards {
		done++
		if MaxCases > 0 && done > MaxCases {
			break
		}
		prof := Profiles[spec.Profiles[i%len(spec.Profiles)]]
		rng := core.NewRng(core.Derive(seed, 99, uint64(i)))
		nops := spec.MinOps + rng.Intn(spec.MaxOps-spec.MinOps+1)
		if tier == "thorough" && i%50 == 0 {
			nops = 2000 + rng.Intn(3000)
		}
		if CurrentFile != "" {
			// pre-log: a crash or a hang of the cache is reproduced by regenerating this case
			os.WriteFile(CurrentFile, []byte(fmt.Sprintf(`{"engine":"seq-regenerate","property":%q,"profile":%q,"seed":%d,"index":%d,"nops":%d}`, prop, prof.Name, seed, i, nops)), 0o644)
		}
		var cov Coverage
		c, mm, err := Generate(prop, prof, seed, i, nops, &cov)
		col.Eval(1)
		if err != nil {
			col.Inconclusive(fmt.Sprintf("case %d: cannot build the cache: %v", i, err))
			continue
		}
		total.add(&cov)
		if nonTrivial(prop, len(c.Ops), &cov) {
			col.NonTrivial(core.HashJSON(c))
		}
		if col.NumSamples() < 2 && len(c.Ops) > 0 {
			s := *c
			if len(s.Ops) > 25 {
				s.Ops = s.Ops[:25]
			}
			col.Sample(map[string]any{"profile": s.Profile, "config": s.Cfg, "first_ops": opStrings(s.Ops), "total_ops": len(c.Ops)})
		}
		if len(mm) > 0 {
			failedKind := -1
			if len(c.Ops) > 0 {
				failedKind = c.Ops[len(c.Ops)-1].Kind
			}
			if !spec.refutes(mm[0].Class, failedKind, mm[0].OnExpired) {
				otherClasses[mm[0].Class]++
				continue
			}
			sc := Shrink(c, mm[0].Class)
			var cv Coverage
			smm, at, _ := Replay(sc, &cv)
			detail := mm[0].String()
			if len(smm) > 0 {
				detail = smm[0].String()
				sc.Ops = sc.Ops[:at+1]
			}
			path := filepath.Join(replayDir, fmt.Sprintf("%s-seq-%x.json", prop, core.HashJSON(sc)))
			data, _ := json.MarshalIndent(map[string]any{"case": sc, "mismatch": detail, "ops_readable": opStrings(sc.Ops)}, "", " ")
			os.WriteFile(path, data, 0o644)
			col.Violation(core.Violation{
				Property:  prop,
				Signature: "seq:" + mm[0].Class + ":" + sigOf(detail),
				Detail:    fmt.Sprintf("%s (shrunk to %d operations; config %+v)", detail, len(sc.Ops), sc.Cfg),
				Replay:    path,
			})
			if col.NumViolations() >= 8 {
				break
			}
		}
	}
	total.export(col)
	for cl, n := range otherClasses {
		col.Note(fmt.Sprintf("%d case(s) stopped at a mismatch of class %q, which refutes another property and is reported by that property's check", n, cl))
		col.Count("stopped_on_other_class."+cl, int64(n))
	}
}

// sigOf keeps the stable part of a mismatch text (operation name and relation, no numbers).
func sigOf(detail string) string {
	var b strings.Builder
	for _, r := range detail {
		switch {
		case r >= '0' && r <= '9':
			continue
		case r == ' ' || r == ',' || r == ':':
			if b.Len() > 0 && b.String()[b.Len()-1] != '_' {
				b.WriteByte('_')
			}
		case r == '(' || r == ')' || r == '{' || r == '}' || r == '=' || r == '-':
			continue
		default:
			b.WriteRune(r)
		}
		if b.Len() > 70 {
			break
		}
	}
	return b.String()
}

func opStrings(ops []Op) []string {
	out := make([]string, len(ops))
	for i, o := range ops {
		out[i] = o.String()
	}
	return out
}

// ReplayFile re-executes a replay file written by RunProperty.
func ReplayFile(col *core.Collector, path string) error {
	data, err := os.ReadFile(path)
	if err != nil {
		return err
	}
	var w struct {
		Case Case `json:"case"`
	}
	if err := json.Unmarshal(data, &w); err != nil {
		return err
	}
	w.Case.fix()
	var cov Coverage
	mm, at, err := Replay(&w.Case, &cov)
	if err != nil {
		return err
	}
	col.Eval(1)
	for i, o := range w.Case.Ops {
		fmt.Printf("%3d %s\n", i, o.String())
	}
	if len(mm) > 0 {
		fmt.Printf("mismatch at operation %d: %s\n", at, mm[0])
		col.Violation(core.Violation{Property: w.Case.Prop, Signature: "seq:" + mm[0].Class + ":" + sigOf(mm[0].String()), Detail: mm[0].String(), Replay: path})
	}
	return nil
}

// Regenerate re-runs a case from its (property, profile, seed, index, nops) descriptor: the
// pre-logged form that survives a crash or a hang of the cache.
func Regenerate(col *core.Collector, data []byte, path string) error {
	var d struct {
		Property string `json:"property"`
		Profile  string `json:"profile"`
		Seed     uint64 `json:"seed"`
		Index    int    `json:"index"`
		Nops     int    `json:"nops"`
	}
	if err := json.Unmarshal(data, &d); err != nil {
		return err
	}
	prof := Profiles[d.Profile]
	if prof == nil {
		return fmt.Errorf("unknown profile %q", d.Profile)
	}
	var cov Coverage
	fmt.Printf("regenerating %s case %d (profile %s, %d operations); a crash or hang below is the witness\n", d.Property, d.Index, d.Profile, d.Nops)
	c, mm, err := Generate(d.Property, prof, d.Seed, d.Index, d.Nops, &cov)
	if err != nil {
		return err
	}
	col.Eval(1)
	if len(mm) > 0 {
		fmt.Printf("mismatch after %d operations: %s\n", len(c.Ops), mm[0])
		col.Violation(core.Violation{Property: d.Property, Signature: "seq:" + mm[0].Class + ":" + sigOf(mm[0].String()), Detail: mm[0].String(), Replay: path})
	}
	return nil
}
