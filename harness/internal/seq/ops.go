package seq

import (
	"context"
	"errors"
	"fmt"
	"math"
	"otterverif/internal/conc"
	"sort"
	"strings"
	"time"

	"github.com/maypok86/otter/v2"
)

const (
	OpSet = iota
	OpSetIfAbsent
	OpGetIfPresent
	OpGetEntry
	OpGetEntryQuietly
	OpCompute
	OpComputeIfAbsent
	OpComputeIfPresent
	OpInvalidate
	OpInvalidateAll
	OpSetExpiresAfter
	OpSetRefreshableAfter
	OpGet
	OpBulkGet
	OpRefresh
	OpBulkRefresh
	OpCleanUp
	OpAdvance
	OpSetMaximum
	OpIterate
	OpViews
	OpRunTasks
	numOps
)

var opNames = []string{"Set", "SetIfAbsent", "GetIfPresent", "GetEntry", "GetEntryQuietly", "Compute", "ComputeIfAbsent",
	"ComputeIfPresent", "Invalidate", "InvalidateAll", "SetExpiresAfter", "SetRefreshableAfter", "Get", "BulkGet", "Refresh",
	"BulkRefresh", "CleanUp", "Advance", "SetMaximum", "Iterate", "Views", "RunTasks"}

// Compute decisions.
const (
	DecCancel = iota
	DecWrite
	DecInvalidate
	DecPanic
	DecInvalidOp
)

type Plan struct {
	Out   int    `json:"out,omitempty"`
	Shape int    `json:"shape,omitempty"`
	Mask  uint64 `json:"mask,omitempty"`
	Extra []int  `json:"extra,omitempty"`
	Pan   int    `json:"pan,omitempty"`
	Nest  int    `json:"nest,omitempty"`
	Adv   int64  `json:"adv,omitempty"` // the clock advances by this much while the loader runs
}

// Op is one concrete operation of a case.
type Op struct {
	Kind  int     `json:"-"`
	Name  string  `json:"op"`
	Key   int     `json:"key,omitempty"`
	Val   int     `json:"val,omitempty"`
	Keys  []int   `json:"keys,omitempty"`
	Dur   int64   `json:"dur,omitempty"`
	Dec   int     `json:"dec,omitempty"`
	Max   uint64  `json:"max,omitempty"`
	Which int     `json:"which,omitempty"` // iterator kind
	Plans [4]Plan `json:"plans,omitempty"`
	Ctx   int     `json:"ctx,omitempty"` // loader-backed calls: 0 background, 1 already cancelled, 2 deadline in the past (the loaders ignore it)
}

func (o Op) String() string {
	switch o.Kind {
	case OpSet, OpSetIfAbsent:
		return fmt.Sprintf("%s(%d,%d)", opNames[o.Kind], o.Key, o.Val)
	case OpCompute, OpComputeIfAbsent, OpComputeIfPresent:
		return fmt.Sprintf("%s(%d, dec=%d val=%d)", opNames[o.Kind], o.Key, o.Dec, o.Val)
	case OpSetExpiresAfter, OpSetRefreshableAfter:
		return fmt.Sprintf("%s(%d,%d)", opNames[o.Kind], o.Key, o.Dur)
	case OpAdvance:
		return fmt.Sprintf("Advance(%d)", o.Dur)
	case OpSetMaximum:
		return fmt.Sprintf("SetMaximum(%d)", o.Max)
	case OpBulkGet, OpBulkRefresh:
		return fmt.Sprintf("%s(%v, plans=%v)", opNames[o.Kind], o.Keys, o.Plans)
	case OpGet, OpRefresh:
		return fmt.Sprintf("%s(%d, plans=%v)", opNames[o.Kind], o.Key, o.Plans[:2])
	case OpIterate:
		if o.Dur > 0 {
			return fmt.Sprintf("Iterate(%d, clock +%d before ranging)", o.Which, o.Dur)
		}
		return fmt.Sprintf("Iterate(%d)", o.Which)
	case OpInvalidateAll, OpCleanUp, OpViews:
		return opNames[o.Kind]
	case OpRunTasks:
		return fmt.Sprintf("RunTasks(n=%d order=%d)", o.Dur, o.Which)
	}
	return fmt.Sprintf("%s(%d)", opNames[o.Kind], o.Key)
}

var cancelledCtx, expiredCtx = func() (context.Context, context.Context) {
	c1, cancel := context.WithCancel(context.Background())
	cancel()
	c2, cancel2 := context.WithDeadline(context.Background(), time.Unix(1, 0))
	_ = cancel2
	return c1, c2
}()

// Runner executes operations on the cache and the model in lock step.
type Runner struct {
	Env   *Env
	M     *Model
	OpsOK int
	Cov   *Coverage
}

// Coverage counts what the monitor observed.
type Coverage struct {
	Ops           [numOps]int64
	OnExpired     [numOps]int64 // operation applied to an expired-but-unswept key
	OnLive        [numOps]int64
	OnAbsent      [numOps]int64
	Events        [5]int64 // by cause
	Loads         [4][5]int64
	CalcCalls     [7]int64
	Evictions     int64
	Sweeps        int64
	SweepChecked  int64
	Audits        int64 // structural audits (hook VerifAudit) after CleanUp
	StaleReads    int64
	SaturatedAdds int64
	Iterations    int64
	RefreshMsgs   int64
}

func NewRunner(cfg Config, cov *Coverage) (*Runner, error) {
	env, err := NewEnv(cfg, cfg.Queued)
	if err != nil {
		return nil, err
	}
	r := &Runner{Env: env, Cov: cov}
	r.M = NewModel(&env.Cfg)
	return r, nil
}

type obs struct {
	v        int
	ok       bool
	entry    otter.Entry[int, int]
	err      error
	m        map[int]int
	panicked any
	msgs     int
	res      []otter.RefreshResult[int, int]
	nilChan  bool
	entries  []otter.Entry[int, int]
	kv       [][2]int
	onlyK    []int
	onlyV    []int
}

func (r *Runner) exec(op *Op) (o obs) {
	e := r.Env
	c := e.Cache
	ctx := context.Background()
	switch op.Ctx {
	case 1:
		ctx = cancelledCtx
	case 2:
		ctx = expiredCtx
	}
	for i := range op.Plans {
		p := op.Plans[i]
		e.plans[i] = loadPlan{Out: p.Out, Shape: p.Shape, Mask: p.Mask, Extra: p.Extra, PanicOf: p.Pan, Nested: p.Nest, Adv: p.Adv}
	}
	defer func() {
		if p := recover(); p != nil {
			o.panicked = p
		}
	}()
	switch op.Kind {
	case OpSet:
		o.v, o.ok = c.Set(op.Key, op.Val)
	case OpSetIfAbsent:
		o.v, o.ok = c.SetIfAbsent(op.Key, op.Val)
	case OpGetIfPresent:
		o.v, o.ok = c.GetIfPresent(op.Key)
	case OpGetEntry:
		o.entry, o.ok = c.GetEntry(op.Key)
	case OpGetEntryQuietly:
		o.entry, o.ok = c.GetEntryQuietly(op.Key)
	case OpCompute:
		o.v, o.ok = c.Compute(op.Key, func(old int, found bool) (int, otter.ComputeOp) {
			e.add(Event{Kind: EvCallback, Key: op.Key, Old: old, Found: found})
			return r.decide(op)
		})
	case OpComputeIfAbsent:
		o.v, o.ok = c.ComputeIfAbsent(op.Key, func() (int, bool) {
			e.add(Event{Kind: EvCallback, Key: op.Key})
			switch op.Dec {
			case DecWrite:
				return op.Val, false
			case DecPanic:
				panic(panicVal{"compute panic"})
			default:
				return op.Val, true
			}
		})
	case OpComputeIfPresent:
		o.v, o.ok = c.ComputeIfPresent(op.Key, func(old int) (int, otter.ComputeOp) {
			e.add(Event{Kind: EvCallback, Key: op.Key, Old: old, Found: true})
			return r.decide(op)
		})
	case OpInvalidate:
		o.v, o.ok = c.Invalidate(op.Key)
	case OpInvalidateAll:
		c.InvalidateAll()
	case OpSetExpiresAfter:
		c.SetExpiresAfter(op.Key, time.Duration(op.Dur))
	case OpSetRefreshableAfter:
		c.SetRefreshableAfter(op.Key, time.Duration(op.Dur))
	case OpGet:
		o.v, o.err = c.Get(ctx, op.Key, envLoader{e})
	case OpBulkGet:
		o.m, o.err = c.BulkGet(ctx, op.Keys, envBulkLoader{e})
	case OpRefresh:
		ch := c.Refresh(ctx, op.Key, envLoader{e})
		if ch == nil {
			o.nilChan = true
		} else {
			for {
				select {
				case m := <-ch:
					o.msgs++
					o.res = append(o.res, m)
					continue
				default:
				}
				break
			}
		}
	case OpBulkRefresh:
		ch := c.BulkRefresh(ctx, op.Keys, envBulkLoader{e})
		if ch == nil {
			o.nilChan = true
		} else {
			for {
				select {
				case m := <-ch:
					o.msgs++
					o.res = append(o.res, m...)
					continue
				default:
				}
				break
			}
		}
	case OpCleanUp:
		c.CleanUp()
	case OpAdvance:
		e.Clock.Advance(op.Dur)
	case OpSetMaximum:
		c.SetMaximum(op.Max)
	case OpIterate:
		// the iterator value is created first; with op.Dur the clock moves before it is ranged over
		// (an iteration judges expiry when it runs, not when its value was obtained)
		hold := func() {
			if op.Dur > 0 {
				e.Clock.Advance(op.Dur)
			}
		}
		switch op.Which {
		case 0:
			it := c.All()
			hold()
			for k, v := range it {
				o.kv = append(o.kv, [2]int{k, v})
			}
		case 1:
			it := c.Keys()
			hold()
			for k := range it {
				o.onlyK = append(o.onlyK, k)
			}
		case 2:
			it := c.Values()
			hold()
			for v := range it {
				o.onlyV = append(o.onlyV, v)
			}
		case 3:
			it := c.Hottest()
			hold()
			for en := range it {
				o.entries = append(o.entries, en)
			}
		default:
			it := c.Coldest()
			hold()
			for en := range it {
				o.entries = append(o.entries, en)
			}
		}
	case OpViews:
	case OpRunTasks:
		// run queued executor tasks: oldest first, or (order != 0) a PRNG-chosen one each time
		for i := int64(0); i < op.Dur && len(e.Queue) > 0; i++ {
			idx := 0
			if op.Which != 0 {
				idx = int(uint64(op.Which)*2654435761+uint64(i)*40503) % len(e.Queue)
			}
			fn := e.Queue[idx]
			e.Queue = append(e.Queue[:idx], e.Queue[idx+1:]...)
			e.runTask(fn)
		}
	}
	return o
}

func (r *Runner) decide(op *Op) (int, otter.ComputeOp) {
	switch op.Dec {
	case DecWrite:
		return op.Val, otter.WriteOp
	case DecInvalidate:
		return op.Val, otter.InvalidateOp
	case DecPanic:
		panic(panicVal{"compute panic"})
	case DecInvalidOp:
		return op.Val, otter.ComputeOp(7)
	default:
		return op.Val, otter.CancelOp
	}
}

// Step runs one operation on the cache and the model and returns the first disagreement.
func (r *Runner) Step(op *Op) []Mismatch {
	m := r.M
	e := r.Env
	cov := r.Cov
	m.begin(op)
	cov.Ops[op.Kind]++
	mark := len(e.Log)
	pre := m.preState(op)
	switch op.Kind {
	case OpCleanUp, OpAdvance, OpSetMaximum, OpIterate, OpViews, OpInvalidateAll:
	case OpBulkGet, OpBulkRefresh:
		for _, k := range pre.distinct {
			if e := m.phys[k]; e != nil && m.expired(e) {
				cov.OnExpired[op.Kind]++
				break
			}
		}
	default:
		switch {
		case pre.expHidden:
			cov.OnExpired[op.Kind]++
		case pre.live != nil:
			cov.OnLive[op.Kind]++
		default:
			cov.OnAbsent[op.Kind]++
		}
	}
	if op.Kind == OpIterate || op.Kind == OpInvalidateAll {
		for _, e := range m.phys {
			if m.expired(e) {
				cov.OnExpired[op.Kind]++
				break
			}
		}
	}
	o := r.exec(op)
	if op.Kind == OpAdvance || (op.Kind == OpIterate && op.Dur > 0) {
		m.now = e.Clock.NowNano()
	}
	log := e.Log[mark:]
	for _, ev := range log {
		switch ev.Kind {
		case EvAtomic:
			if ev.Sub >= 1 && ev.Sub <= 4 {
				cov.Events[ev.Sub]++
			}
		case EvCalc:
			cov.CalcCalls[ev.Sub]++
		case EvLoadExit:
			cov.Loads[ev.Sub][ev.Out]++
		}
	}
	m.expect(op, pre)
	m.walk(log)
	m.end()
	if op.Kind == OpCleanUp {
		for _, rm := range m.removed {
			if rm.cause == int(otter.CauseExpiration) {
				cov.SweepChecked++
			}
		}
	}
	if (op.Kind == OpRefresh || op.Kind == OpBulkRefresh) && o.msgs > 0 {
		cov.RefreshMsgs += int64(o.msgs)
	}
	if len(m.mm) == 0 {
		m.compare(op, pre, &o)
	}
	if len(m.mm) == 0 {
		m.settle(op)
		r.audit(op)
	}
	if len(m.mm) == 0 && m.cfg.Stats {
		m.hits += uint64(m.opHits)
		m.misses += uint64(m.opMisses)
		m.loadOK += uint64(m.opLoadOK)
		m.loadFail += uint64(m.opLoadFail)
		r.checkStats(pre)
	}
	onExpired := pre.expHidden
	for _, k := range pre.distinct {
		if pre.keysExpired[k] {
			onExpired = true
		}
	}
	if onExpired {
		for i := range m.mm {
			m.mm[i].OnExpired = true
		}
	}
	// The log is consumed; keep memory bounded.
	e.Log = e.Log[:0]
	if len(m.mm) == 0 {
		r.OpsOK++
	}
	return m.mm
}

// preView is what the model knows before the operation runs.
type preView struct {
	live        *ent // live entry of op.Key (copy)
	phys        *ent
	expHidden   bool // physically present but expired
	keysLive    map[int]*ent
	keysStale   map[int]bool
	keysExpired map[int]bool // requested keys whose entry had expired but was not swept
	distinct    []int
	expHits     int64
	expMisses   int64
	now         int64
}

func (m *Model) preState(op *Op) *preView {
	p := &preView{now: m.t()}
	if e := m.phys[op.Key]; e != nil {
		cp := *e
		p.phys = &cp
		if m.expired(e) {
			p.expHidden = true
		} else {
			p.live = &cp
		}
	}
	if op.Kind == OpBulkGet || op.Kind == OpBulkRefresh {
		p.keysLive = map[int]*ent{}
		p.keysStale = map[int]bool{}
		p.keysExpired = map[int]bool{}
		seen := map[int]bool{}
		for _, k := range op.Keys {
			if seen[k] {
				continue
			}
			seen[k] = true
			p.distinct = append(p.distinct, k)
			if e := m.live(k); e != nil {
				cp := *e
				p.keysLive[k] = &cp
				p.keysStale[k] = m.stale(e)
			} else if m.phys[k] != nil {
				p.keysExpired[k] = true
			}
		}
	}
	return p
}

// expect prepares the expectations of the operation from the state before it.
func (m *Model) expect(op *Op, pre *preView) {
	k := op.Key
	withExp := m.cfg.WithExp()
	switch op.Kind {
	case OpSet:
		m.addPend(&pend{key: k, kind: pwInstall, val: op.Val, open: true})
	case OpSetIfAbsent:
		if pre.live != nil {
			if withExp {
				m.reads[k]++
			}
		} else {
			m.addPend(&pend{key: k, kind: pwInstall, val: op.Val, open: true})
		}
	case OpGetIfPresent, OpGetEntry:
		if pre.live != nil {
			pre.expHits++
			if withExp {
				m.reads[k]++
			}
		} else {
			pre.expMisses++
		}
	case OpCompute:
		if op.Dec != DecPanic && op.Dec != DecInvalidOp {
			// a panicking function propagates before the lookup is counted
			if pre.live != nil {
				pre.expHits++
			} else {
				pre.expMisses++
			}
		}
		m.computePend(op, pre.live != nil)
	case OpComputeIfAbsent:
		if pre.live != nil {
			pre.expHits++
			if withExp {
				m.reads[k]++
			}
		} else {
			pre.expMisses++
			switch op.Dec {
			case DecWrite:
				m.addPend(&pend{key: k, kind: pwInstall, val: op.Val})
			case DecPanic:
			default:
				m.addPend(&pend{key: k, kind: pwRemoveIfExpired})
			}
		}
	case OpComputeIfPresent:
		if pre.live != nil {
			pre.expHits++
			if withExp {
				m.reads[k]++
			}
			m.computePend(op, true)
		} else {
			pre.expMisses++
		}
	case OpInvalidate:
		m.addPend(&pend{key: k, kind: pwRemove, open: true})
	case OpInvalidateAll:
		for key := range m.phys {
			m.addPend(&pend{key: key, kind: pwRemove, open: true})
		}
	case OpSetExpiresAfter:
		if withExp && op.Dur > 0 {
			if e := m.live(k); e != nil {
				ne := sat(m.t(), op.Dur)
				if ne < e.exp {
					e.shortened = true
				}
				e.exp = ne
			}
		}
	case OpSetRefreshableAfter:
		if m.cfg.WithRef() && op.Dur > 0 {
			if e := m.live(k); e != nil {
				e.ref = sat(m.t(), op.Dur)
			}
		}
	case OpGet:
		if pre.live != nil {
			pre.expHits++
			if withExp {
				m.reads[k]++
			}
			if m.stale(pre.live) {
				m.loads = append(m.loads, &expLoad{kind: LkReload, key: k, old: pre.live.v})
				m.nextLoad = m.singleExit(k, true)
			}
		} else {
			pre.expMisses++
			m.loads = append(m.loads, &expLoad{kind: LkLoad, key: k})
			m.nextLoad = m.singleExit(k, false)
		}
	case OpRefresh:
		if !m.cfg.WithRef() {
			return
		}
		if pre.live != nil {
			m.loads = append(m.loads, &expLoad{kind: LkReload, key: k, old: pre.live.v})
		} else {
			m.loads = append(m.loads, &expLoad{kind: LkLoad, key: k})
		}
		m.nextLoad = m.singleExit(k, true)
	case OpBulkGet:
		var stale, miss []int
		olds := map[int]int{}
		for _, key := range pre.distinct {
			if e := pre.keysLive[key]; e != nil {
				pre.expHits++
				if withExp {
					m.reads[key]++
				}
				if pre.keysStale[key] {
					stale = append(stale, key)
					olds[key] = e.v
				}
			} else {
				pre.expMisses++
				miss = append(miss, key)
			}
		}
		if len(stale) > 0 {
			m.loads = append(m.loads, &expLoad{kind: LkBulkReload, keys: stale, olds: olds})
		}
		if len(miss) > 0 {
			m.loads = append(m.loads, &expLoad{kind: LkBulkLoad, keys: miss})
		}
		m.nextLoad = m.bulkExit()
	case OpBulkRefresh:
		if !m.cfg.WithRef() {
			return
		}
		var reload, load []int
		olds := map[int]int{}
		for _, key := range pre.distinct {
			if e := pre.keysLive[key]; e != nil {
				reload = append(reload, key)
				olds[key] = e.v
			} else {
				load = append(load, key)
			}
		}
		if len(load) > 0 {
			m.loads = append(m.loads, &expLoad{kind: LkBulkLoad, keys: load})
		}
		if len(reload) > 0 {
			m.loads = append(m.loads, &expLoad{kind: LkBulkReload, keys: reload, olds: olds})
		}
		m.nextLoad = m.bulkExit()
	case OpSetMaximum:
		if m.cfg.Bounded() {
			m.max = op.Max
		}
	}
}

func (m *Model) computePend(op *Op, live bool) {
	k := op.Key
	switch op.Dec {
	case DecWrite:
		m.addPend(&pend{key: k, kind: pwInstall, val: op.Val})
	case DecInvalidate:
		m.addPend(&pend{key: k, kind: pwRemove})
	case DecCancel:
		m.addPend(&pend{key: k, kind: pwRemoveIfExpired})
	}
}

// singleExit handles the end of a Load/Reload of key k.
func (m *Model) singleExit(k int, isRefresh bool) func(ev Event) {
	return func(ev Event) {
		m.nextLoad = nil
		delete(m.registered, k)
		if m.cancelled[k] && (ev.Out == OutValue || ev.Out == OutNotFound) {
			return
		}
		switch ev.Out {
		case OutValue:
			m.addPend(&pend{key: k, kind: pwInstall, val: ev.Val, open: true, isCall: true, isRefresh: isRefresh})
		case OutNotFound:
			m.addPend(&pend{key: k, kind: pwRemove, open: true, isCall: true})
		default:
			if isRefresh && m.cfg.WithRef() && m.phys[k] != nil {
				m.rrf[k]++
			}
		}
	}
}

// bulkExit handles the end of a BulkLoad/BulkReload.
func (m *Model) bulkExit() func(ev Event) {
	return func(ev Event) {
		isRefresh := ev.Sub == LkBulkReload || m.op.Kind == OpBulkRefresh
		var req []int
		for _, l := range m.loads {
			if l.kind == ev.Sub {
				req = l.keys
			}
		}
		switch ev.Out {
		case OutValue:
			inReq := map[int]bool{}
			for _, k := range req {
				inReq[k] = true
				delete(m.registered, k)
				if m.cancelled[k] {
					continue
				}
				if v, ok := ev.Res[k]; ok {
					m.addPend(&pend{key: k, kind: pwInstall, val: v, open: true, isCall: true, isRefresh: isRefresh})
				} else {
					m.addPend(&pend{key: k, kind: pwRemove, open: true, isCall: true})
				}
			}
			for k, v := range ev.Res {
				if !inReq[k] {
					m.addPend(&pend{key: k, kind: pwInstall, val: v, open: true, isCall: true, isFake: true, isRefresh: isRefresh})
				}
			}
		default:
			for _, k := range req {
				delete(m.registered, k)
			}
			if isRefresh && m.cfg.WithRef() {
				for _, k := range req {
					if m.phys[k] != nil {
						m.rrf[k]++
					}
				}
			}
			if ev.Out == OutPanic && ev.Sub == LkBulkLoad && m.op.Kind == OpBulkRefresh && m.cfg.WithRef() {
				// the reload batch of the same task never runs; its calls are finished as failed reloads
				for _, l := range m.loads {
					if l.kind == LkBulkReload && !l.seen {
						for _, k := range l.keys {
							if m.phys[k] != nil {
								m.rrf[k]++
							}
						}
					}
				}
			}
		}
	}
}

func isNotFound(err error) bool { return err != nil && errors.Is(err, otter.ErrNotFound) }

// lastExit returns the exit event of the loader kind in the log walked (captured during walk).
func findExit(log []Event, kind int) *Event {
	for i := range log {
		if log[i].Kind == EvLoadExit && log[i].Sub == kind {
			return &log[i]
		}
	}
	return nil
}

// compare checks what the operation returned.
func (m *Model) compare(op *Op, pre *preView, o *obs) {
	k := op.Key
	name := op.String()
	wantPanic := false
	switch op.Kind {
	case OpCompute:
		wantPanic = op.Dec == DecPanic || op.Dec == DecInvalidOp
	case OpComputeIfAbsent:
		wantPanic = pre.live == nil && op.Dec == DecPanic
	case OpComputeIfPresent:
		wantPanic = pre.live != nil && (op.Dec == DecPanic || op.Dec == DecInvalidOp)
	case OpGet:
		wantPanic = pre.live == nil && op.Plans[LkLoad].Out == OutPanic
	case OpBulkGet:
		for _, key := range pre.distinct {
			if pre.keysLive[key] == nil {
				wantPanic = op.Plans[LkBulkLoad].Out == OutPanic
			}
		}
	}
	if (o.panicked != nil) != wantPanic {
		m.fail("ret", "%s: panicked=%v (%v), the model expects panic=%v", name, o.panicked != nil, o.panicked, wantPanic)
		return
	}
	if wantPanic {
		return
	}
	// exposure of an expired value is the C03 class
	hidden := func(v int) bool { return pre.expHidden && pre.phys != nil && pre.phys.v == v }
	retMismatch := func(gotV int, gotOK bool, wantV int, wantOK bool) {
		if gotV != wantV || gotOK != wantOK {
			class := "ret"
			if hidden(gotV) && pre.live == nil {
				class = "expired"
			}
			m.fail(class, "%s returned (%d,%v), the model expects (%d,%v); before the call the model held %s (now %d)",
				name, gotV, gotOK, wantV, wantOK, entStr(pre.phys), pre.now)
		}
	}
	switch op.Kind {
	case OpSet:
		if pre.live != nil {
			retMismatch(o.v, o.ok, pre.live.v, false)
		} else {
			retMismatch(o.v, o.ok, op.Val, true)
		}
	case OpSetIfAbsent:
		if pre.live != nil {
			retMismatch(o.v, o.ok, pre.live.v, false)
		} else {
			retMismatch(o.v, o.ok, op.Val, true)
		}
	case OpGetIfPresent:
		if pre.live != nil {
			retMismatch(o.v, o.ok, pre.live.v, true)
		} else {
			retMismatch(o.v, o.ok, 0, false)
		}
	case OpGetEntry, OpGetEntryQuietly:
		cur := m.live(k)
		if pre.live == nil || cur == nil {
			if o.ok {
				class := "ret"
				if hidden(o.entry.Value) {
					class = "expired"
				}
				m.fail(class, "%s found %+v, the model holds %s (now %d)", name, o.entry, entStr(pre.phys), pre.now)
			}
			return
		}
		if !o.ok {
			m.fail("ret", "%s found nothing, the model holds %s", name, entStr(cur))
			return
		}
		m.checkEntry(name, o.entry, k, cur, pre.now)
	case OpCompute:
		switch op.Dec {
		case DecWrite:
			retMismatch(o.v, o.ok, op.Val, true)
		case DecInvalidate:
			retMismatch(o.v, o.ok, 0, false)
		default:
			if pre.live != nil {
				retMismatch(o.v, o.ok, pre.live.v, true)
			} else {
				retMismatch(o.v, o.ok, 0, false)
			}
		}
	case OpComputeIfAbsent:
		switch {
		case pre.live != nil:
			retMismatch(o.v, o.ok, pre.live.v, true)
			if m.cbSeen != 0 {
				m.fail("ret", "%s invoked its function although the key was present", name)
			}
		case op.Dec == DecWrite:
			retMismatch(o.v, o.ok, op.Val, true)
		default:
			retMismatch(o.v, o.ok, 0, false)
		}
		if pre.live == nil && m.cbSeen != 1 {
			m.fail("ret", "%s invoked its function %d times", name, m.cbSeen)
		}
	case OpComputeIfPresent:
		if pre.live == nil {
			retMismatch(o.v, o.ok, 0, false)
			if m.cbSeen != 0 {
				m.fail("ret", "%s invoked its function although the key was absent", name)
			}
			return
		}
		if m.cbSeen != 1 {
			m.fail("ret", "%s invoked its function %d times", name, m.cbSeen)
		}
		switch op.Dec {
		case DecWrite:
			retMismatch(o.v, o.ok, op.Val, true)
		case DecInvalidate:
			retMismatch(o.v, o.ok, 0, false)
		default:
			retMismatch(o.v, o.ok, pre.live.v, true)
		}
	case OpInvalidate:
		if pre.live != nil {
			retMismatch(o.v, o.ok, pre.live.v, true)
		} else {
			retMismatch(o.v, o.ok, 0, false)
		}
	case OpGet:
		m.compareGet(op, pre, o, name)
	case OpBulkGet:
		m.compareBulkGet(op, pre, o, name)
	case OpRefresh, OpBulkRefresh:
		m.compareRefresh(op, pre, o, name)
	case OpIterate:
		m.compareIter(op, o, name)
	}
	if op.Kind == OpCompute && m.cbSeen != 1 {
		m.fail("ret", "%s invoked its function %d times", name, m.cbSeen)
	}
}

func (m *Model) checkEntry(name string, got otter.Entry[int, int], k int, cur *ent, now int64) {
	if got.Key != k || got.Value != cur.v {
		m.fail("ret", "%s returned entry %+v, the model holds %s", name, got, entStr(cur))
		return
	}
	wantW := cur.w
	if got.Weight != wantW {
		m.fail("ret", "%s returned weight %d, the model holds %s", name, got.Weight, entStr(cur))
		return
	}
	if got.ExpiresAtNano != cur.exp {
		class := "deadline"
		if got.ExpiresAtNano < cur.exp {
			class = "tooearly" // the entry will disappear before its deadline: also a C07 matter
		}
		m.fail(class, "%s: ExpiresAtNano=%d, the model computes %d (now %d)", name, got.ExpiresAtNano, cur.exp, now)
		return
	}
	if got.RefreshableAtNano != cur.ref {
		m.fail("deadline", "%s: RefreshableAtNano=%d, the model computes %d (now %d)", name, got.RefreshableAtNano, cur.ref, now)
		return
	}
	if got.SnapshotAtNano != now {
		m.fail("ret", "%s: SnapshotAtNano=%d, now %d", name, got.SnapshotAtNano, now)
	}
}

func (m *Model) compareGet(op *Op, pre *preView, o *obs, name string) {
	if pre.live != nil {
		class := "ret"
		if m.stale(pre.live) || m.cfg.WithRef() {
			class = "refresh"
		}
		if o.v != pre.live.v || o.err != nil {
			m.fail(class, "%s returned (%d,%v); the cached value at that moment was %d", name, o.v, o.err, pre.live.v)
		}
		return
	}
	pl := op.Plans[LkLoad]
	ex := m.lastExit
	if ex == nil {
		m.fail("load", "%s: the loader was not invoked for a missing key", name)
		return
	}
	switch pl.Out {
	case OutValue:
		if o.err != nil || o.v != ex.Val {
			class := "load"
			if pre.expHidden && pre.phys.v == o.v {
				class = "expired"
			}
			m.fail(class, "%s returned (%d,%v), the loader returned %d", name, o.v, o.err, ex.Val)
		}
	case OutError:
		if !errors.Is(o.err, errBoom) || o.v != ex.Val {
			m.fail("load", "%s returned (%d,%v), the loader returned (%d, %v)", name, o.v, o.err, ex.Val, errBoom)
		}
	case OutNotFound, OutNotFoundWrapped:
		if !isNotFound(o.err) || o.v != ex.Val {
			m.fail("load", "%s returned (%d,%v), the loader returned (%d, ErrNotFound)", name, o.v, o.err, ex.Val)
		}
	}
}

func (m *Model) compareBulkGet(op *Op, pre *preView, o *obs, name string) {
	want := map[int]int{}
	var miss []int
	for _, key := range pre.distinct {
		if e := pre.keysLive[key]; e != nil {
			want[key] = e.v
		} else {
			miss = append(miss, key)
		}
	}
	var wantErr string
	if len(miss) > 0 {
		pl := op.Plans[LkBulkLoad]
		switch pl.Out {
		case OutValue:
			if m.bulkLoadExit != nil {
				for _, key := range miss {
					if v, ok := m.bulkLoadExit.Res[key]; ok {
						want[key] = v
					}
				}
			}
		case OutError:
			wantErr = "boom"
		default:
			wantErr = "notfound"
		}
	}
	switch wantErr {
	case "":
		if o.err != nil {
			m.fail("load", "%s returned error %v, the model expects none", name, o.err)
			return
		}
	case "boom":
		if !errors.Is(o.err, errBoom) {
			m.fail("load", "%s returned error %v, the loader failed with %v", name, o.err, errBoom)
			return
		}
	case "notfound":
		if !isNotFound(o.err) {
			m.fail("load", "%s returned error %v, the loader failed with ErrNotFound", name, o.err)
			return
		}
	}
	if !sameMap(o.m, want) {
		class := "load"
		for key, v := range o.m {
			if e := m.phys[key]; e != nil && m.expired(e) && e.v == v {
				class = "expired"
			}
		}
		m.fail(class, "%s returned %v, the model expects %v", name, o.m, want)
	}
}

func sameMap(a, b map[int]int) bool {
	if len(a) != len(b) {
		return false
	}
	for k, v := range a {
		if w, ok := b[k]; !ok || w != v {
			return false
		}
	}
	return true
}

func (m *Model) compareRefresh(op *Op, pre *preView, o *obs, name string) {
	if !m.cfg.WithRef() {
		if !o.nilChan {
			m.fail("refresh", "%s returned a channel although refreshing is not configured", name)
		}
		return
	}
	if o.nilChan {
		m.fail("refresh", "%s returned a nil channel", name)
		return
	}
	panicked := m.execPanics > 0
	if panicked {
		return // a panicking reload re-raises inside its executor task; nothing is promised for it
	}
	if o.msgs != 1 {
		m.fail("refresh", "%s delivered %d messages on its channel, exactly one is expected", name, o.msgs)
		return
	}
	if op.Kind == OpRefresh {
		r := o.res[0]
		ex := m.lastExit
		if ex == nil {
			m.fail("refresh", "%s: no loader invocation", name)
			return
		}
		if r.Key != op.Key || r.Value != ex.Val {
			m.fail("refresh", "%s delivered %+v, the loader returned %d", name, r, ex.Val)
			return
		}
		switch ex.Out {
		case OutValue:
			if r.Err != nil {
				m.fail("refresh", "%s delivered error %v for a successful reload", name, r.Err)
			}
		case OutError:
			if !errors.Is(r.Err, errBoom) {
				m.fail("refresh", "%s delivered error %v, the loader failed with %v", name, r.Err, errBoom)
			}
		case OutNotFound:
			if !isNotFound(r.Err) {
				m.fail("refresh", "%s delivered error %v, the loader reported not found", name, r.Err)
			}
		}
		return
	}
	// BulkRefresh: one result per distinct key.
	seen := map[int]bool{}
	for _, r := range o.res {
		if seen[r.Key] {
			m.fail("refresh", "%s delivered key %d twice", name, r.Key)
			return
		}
		seen[r.Key] = true
	}
	for _, k := range pre.distinct {
		if !seen[k] {
			m.fail("refresh", "%s delivered no result for the requested key %d", name, k)
			return
		}
	}
	requested := map[int]bool{}
	for _, k := range pre.distinct {
		requested[k] = true
	}
	for _, r := range o.res {
		if !requested[r.Key] {
			// a key the bulk loader volunteered; it may be reported too
			volunteered := false
			for _, ex := range []*Event{m.bulkLoadExit, m.bulkReloadExit} {
				if ex != nil {
					if _, ok := ex.Res[r.Key]; ok {
						volunteered = true
					}
				}
			}
			if !volunteered {
				m.fail("refresh", "%s delivered a result for key %d, which was neither requested nor supplied by the loader", name, r.Key)
				return
			}
			continue
		}
		live := pre.keysLive[r.Key] != nil
		ex := m.bulkLoadExit
		if live {
			ex = m.bulkReloadExit
		}
		if ex == nil {
			m.fail("refresh", "%s: no bulk loader invocation for key %d", name, r.Key)
			return
		}
		switch ex.Out {
		case OutValue:
			if v, ok := ex.Res[r.Key]; ok && (r.Value != v || r.Err != nil) {
				m.fail("refresh", "%s delivered %+v, the loader supplied %d", name, r, v)
				return
			}
		default:
			if r.Err == nil {
				m.fail("refresh", "%s delivered no error for key %d although the loader failed", name, r.Key)
				return
			}
		}
	}
}

func (m *Model) compareIter(op *Op, o *obs, name string) {
	type kv struct{ k, v int }
	want := map[kv]bool{}
	for k, e := range m.phys {
		if !m.expired(e) {
			want[kv{k, e.v}] = true
		}
	}
	report := func(got map[kv]int) {
		for p, n := range got {
			if n > 1 {
				m.fail("views", "%s yielded key %d twice", name, p.k)
				return
			}
			if !want[p] {
				class := "views"
				if e := m.phys[p.k]; e != nil && e.v == p.v && m.expired(e) {
					class = "expired"
				}
				m.fail(class, "%s yielded (%d,%d), which the model does not hold as live (%s, now %d)", name, p.k, p.v, entStr(m.phys[p.k]), m.t())
				return
			}
		}
		for p := range want {
			if got[p] == 0 {
				m.fail("views", "%s did not yield (%d,%d), which the model holds as live", name, p.k, p.v)
				return
			}
		}
	}
	switch op.Which {
	case 0:
		got := map[kv]int{}
		for _, p := range o.kv {
			got[kv{p[0], p[1]}]++
		}
		report(got)
	case 1:
		got := map[kv]int{}
		for _, k := range o.onlyK {
			v := -1
			if e := m.phys[k]; e != nil {
				v = e.v
			}
			got[kv{k, v}]++
		}
		report(got)
	case 2:
		gotV := append([]int(nil), o.onlyV...)
		var wantV []int
		for p := range want {
			wantV = append(wantV, p.v)
		}
		sort.Ints(gotV)
		sort.Ints(wantV)
		if fmt.Sprint(gotV) != fmt.Sprint(wantV) {
			class := "views"
			for _, v := range gotV {
				for _, e := range m.phys {
					if e.v == v && m.expired(e) {
						class = "expired"
					}
				}
			}
			m.fail(class, "%s yielded %v, the model holds %v", name, gotV, wantV)
		}
	default:
		got := map[kv]int{}
		for _, en := range o.entries {
			got[kv{en.Key, en.Value}]++
		}
		report(got)
		if len(m.mm) == 0 {
			for _, en := range o.entries {
				m.checkEntry(name, en, en.Key, m.phys[en.Key], m.t())
				if len(m.mm) > 0 {
					return
				}
			}
		}
	}
}

// settle applies what holds after the operation returned.
func (m *Model) settle(op *Op) {
	if m.cfg.Bounded() && (!m.cfg.Queued || op.Kind == OpCleanUp) {
		total := m.totalWeight()
		if total > m.max {
			m.fail("bound", "after %s: total weight %d exceeds the maximum %d", op, total, m.max)
			return
		}
		for k, e := range m.phys {
			if uint64(e.w) > m.max {
				m.fail("bound", "after %s: key %d with weight %d (maximum %d) is retained", op, k, e.w, m.max)
				return
			}
		}
	}
	if op.Kind == OpCleanUp && m.cfg.WithExp() {
		t := m.t()
		for k, e := range m.phys {
			if e.shortened {
				continue
			}
			if e.exp < t-tickNanos && e.writtenAt < t-tickNanos {
				m.fail("sweep", "CleanUp at %d: key %d (deadline %d, written at %d) is still physically present and unreported", t, k, e.exp, e.writtenAt)
				return
			}
		}
	}
}

// audit compares the cache's own views with the model after every operation.
func (r *Runner) audit(op *Op) {
	m := r.M
	c := r.Env.Cache
	now := m.t()
	for k := 0; k < m.cfg.Keys+2; k++ {
		got, ok := c.GetEntryQuietly(k)
		cur := m.live(k)
		if cur == nil {
			if ok {
				class := "ret"
				if e := m.phys[k]; e != nil && e.v == got.Value {
					class = "expired"
				}
				m.fail(class, "after %s: GetEntryQuietly(%d) finds %+v, the model holds %s (now %d)", op, k, got, entStr(m.phys[k]), now)
				return
			}
			continue
		}
		if !ok {
			m.fail("ret", "after %s: GetEntryQuietly(%d) finds nothing, the model holds %s (now %d) and no removal was reported", op, k, entStr(cur), now)
			return
		}
		m.checkEntry(fmt.Sprintf("after %s: GetEntryQuietly(%d)", op, k), got, k, cur, now)
		if len(m.mm) > 0 {
			return
		}
	}
	if n := c.EstimatedSize(); n != len(m.phys) {
		m.fail("views", "after %s: EstimatedSize()=%d, the model holds %d entries not reported as removed", op, n, len(m.phys))
		return
	}
	if op.Kind == OpCleanUp && !m.cfg.Queued {
		// maintenance has just run in this goroutine: the structural audit of the policies (white box, hook VerifAudit)
		if s := (&conc.Trial{}).CheckAudit(c.VerifAudit(), true); s != "" {
			class := "views"
			if strings.Contains(s, "timer wheel") {
				class = "wheel" // an entry without (or with a stray) timer: it is never swept - also a C13 matter
			}
			m.fail(class, "after %s: %s", op, s)
			return
		}
		r.Cov.Audits++
	}
	if (op.Kind == OpViews || r.OpsOK%7 == 0) && (!m.cfg.Queued || op.Kind == OpCleanUp) {
		wantMax := m.max
		if !m.cfg.Bounded() {
			wantMax = math.MaxUint64
		}
		if g := c.GetMaximum(); g != wantMax {
			m.fail("views", "after %s: GetMaximum()=%d, expected %d", op, g, wantMax)
			return
		}
		var wantW uint64
		if m.cfg.Weighted() {
			wantW = m.totalWeight()
		}
		if g := c.WeightedSize(); g != wantW {
			m.fail("views", "after %s: WeightedSize()=%d, the model's total weight is %d", op, g, wantW)
			return
		}
		if c.IsWeighted() != m.cfg.Weighted() || c.IsRecordingStats() != m.cfg.Stats {
			m.fail("views", "IsWeighted/IsRecordingStats disagree with the configuration")
		}
	}
}

func (r *Runner) checkStats(pre *preView) {
	m := r.M
	if m.opHits != pre.expHits+m.nestHits || m.opMisses != pre.expMisses+m.nestMisses {
		m.fail("stats", "%s recorded hits=%d misses=%d, the model counts hits=%d misses=%d", m.op, m.opHits, m.opMisses, pre.expHits+m.nestHits, pre.expMisses+m.nestMisses)
		return
	}
	s := r.Env.Cache.Stats()
	if s.Hits != m.hits || s.Misses != m.misses || s.LoadSuccesses != m.loadOK || s.LoadFailures != m.loadFail ||
		s.Evictions != m.evictions || s.EvictionWeight != m.evictionWeight {
		m.fail("stats", "after %s: Stats()={hits %d misses %d loadOK %d loadFail %d evictions %d weight %d}, the model counts {%d %d %d %d %d %d}",
			m.op, s.Hits, s.Misses, s.LoadSuccesses, s.LoadFailures, s.Evictions, s.EvictionWeight,
			m.hits, m.misses, m.loadOK, m.loadFail, m.evictions, m.evictionWeight)
	}
}
