package seq

import (
	"encoding/json"
	"fmt"
	"os"
	"path/filepath"
	"sync"
	"sync/atomic"
	"time"

	"github.com/maypok86/otter/v2"

	"otterverif/internal/core"
)

// parkClock is a manual clock that can hold the next caller of NowNano after it sampled the time:
// the Clock implementation is the control point of the C13 schedules.
type parkClock struct {
	now    atomic.Int64
	park   atomic.Bool
	parked chan struct{}
	resume chan struct{}
	tick   chan time.Time
}

func (c *parkClock) NowNano() int64 {
	v := c.now.Load()
	if c.park.CompareAndSwap(true, false) {
		c.parked <- struct{}{}
		<-c.resume
	}
	return v
}

func (c *parkClock) Tick(time.Duration) <-chan time.Time { return c.tick }

// SchedCase is one writer-vs-maintenance schedule.
type SchedCase struct {
	Engine string `json:"engine"`
	Seed   uint64 `json:"seed"`
	Index  int    `json:"index"`
	Origin int64  `json:"origin"`
	TTL    int64  `json:"ttl"`
	Jump   int64  `json:"jump"`  // clock advance while the writer is parked
	Later  int64  `json:"later"` // advance before the judging CleanUp
	Async  bool   `json:"async_executor"`
	Kind   int    `json:"write_kind"` // 0 Set 1 SetIfAbsent 2 Compute 3 Get(load)
	Others int    `json:"other_entries"`
	Bound  int    `json:"maximum_size"`
}

func runSched(sc *SchedCase) (violation string) {
	clk := &parkClock{parked: make(chan struct{}, 1), resume: make(chan struct{}), tick: make(chan time.Time)}
	clk.now.Store(sc.Origin)
	var mu sync.Mutex
	var expired []otter.DeletionEvent[int, int]
	var wg sync.WaitGroup
	o := &otter.Options[int, int]{
		Clock:            clk,
		ExpiryCalculator: otter.ExpiryWriting[int, int](time.Duration(sc.TTL)),
		OnDeletion: func(e otter.DeletionEvent[int, int]) {
			mu.Lock()
			expired = append(expired, e)
			mu.Unlock()
		},
	}
	if sc.Bound > 0 {
		o.MaximumSize = sc.Bound
	}
	if sc.Async {
		o.Executor = func(fn func()) {
			wg.Add(1)
			go func() {
				defer wg.Done()
				fn()
			}()
		}
	} else {
		o.Executor = func(fn func()) { fn() }
	}
	c, err := otter.New(o)
	if err != nil {
		return "cannot build: " + err.Error()
	}
	defer c.StopAllGoroutines()
	for i := 0; i < sc.Others; i++ {
		c.Set(100+i, i)
	}
	wg.Wait() // no maintenance task may be running when the clock is armed
	const k, v = 1, 4242
	done := make(chan struct{})
	clk.park.Store(true)
	go func() {
		defer close(done)
		switch sc.Kind {
		case 0:
			c.Set(k, v)
		case 1:
			c.SetIfAbsent(k, v)
		case 2:
			c.Compute(k, func(int, bool) (int, otter.ComputeOp) { return v, otter.WriteOp })
		}
	}()
	select {
	case <-clk.parked:
	case <-time.After(10 * time.Second):
		return "inconclusive: the writer never sampled the clock"
	}
	// the writer holds T0; maintenance now runs at a much later clock value
	clk.now.Store(sat(sc.Origin, sc.Jump))
	c.CleanUp()
	wg.Wait()
	close(clk.resume)
	select {
	case <-done:
	case <-time.After(180 * time.Second):
		return "the parked write did not return"
	}
	wg.Wait()
	t1 := clk.now.Load()
	deadline := sat(sc.Origin, sc.TTL)
	if _, ok := c.GetIfPresent(k); ok && deadline <= t1 {
		return fmt.Sprintf("the entry written with a clock sample of %d (deadline %d) is visible at %d", sc.Origin, deadline, t1)
	}
	wg.Wait()
	t2 := sat(t1, sc.Later)
	clk.now.Store(t2)
	c.CleanUp()
	wg.Wait()
	c.CleanUp()
	wg.Wait()
	if !(deadline < t2-tickNanos && t1 < t2-tickNanos) {
		return ""
	}
	// physically removed: not counted and reported
	want := 0
	for i := 0; i < sc.Others; i++ {
		if _, ok := c.GetEntryQuietly(100 + i); ok {
			want++
		}
	}
	mu.Lock()
	reported := false
	for _, e := range expired {
		if e.Key == k && e.Value == v && e.Cause == otter.CauseExpiration {
			reported = true
		}
		if e.Key == k && e.Value == v && e.Cause == otter.CauseOverflow {
			reported = true // evicted for size instead: also gone and reported
		}
	}
	mu.Unlock()
	if n := c.EstimatedSize(); n != want || !reported {
		return fmt.Sprintf("CleanUp at %d: the entry whose write sampled the clock at %d (deadline %d) and returned at %d is still counted (EstimatedSize %d, %d live entries) or unreported (Expiration delivered: %v)",
			t2, sc.Origin, deadline, t1, n, want, reported)
	}
	return ""
}

// ReadSchedCase is a reader-vs-sweep schedule: under an access-reset policy a reader samples the clock
// while the entry is alive and is parked before it publishes the extended deadline; the clock moves
// past the old deadline and maintenance runs; the reader is released at a chosen point of that run
// (before it, when the drain begins, or when the sweep has decided to expire a node and is about to
// remove it). Whatever the sweep does with the entry, a CleanUp more than a tick after the extended
// deadline must find it removed and reported.
type ReadSchedCase struct {
	Engine  string `json:"engine"`
	Seed    uint64 `json:"seed"`
	Index   int    `json:"index"`
	Origin  int64  `json:"origin"`
	TTL     int64  `json:"ttl"`
	Before  int64  `json:"read_before_deadline"` // the read samples the clock this long before the deadline
	Past    int64  `json:"sweep_past_deadline"`  // maintenance runs this long after the old deadline
	Later   int64  `json:"later"`                // judging CleanUp this long after the extended deadline
	Release int    `json:"release_at"`           // 0 before CleanUp, 1 drain.enter, 2 evictNode.enter, 3 the table computation that follows evictNode.enter
	Others  int    `json:"other_entries"`
	Bound   int    `json:"maximum_size"`
	Reader  int    `json:"read_kind"` // 0 GetIfPresent 1 GetEntry 2 Compute(cancel) 3 SetIfAbsent(present) 4 SetExpiresAfter
	// SizeEvict: the maintenance at the racing instant is a size eviction (SetMaximum(0)) instead of the
	// timer sweep: the clock has passed the deadline but not the next tick, so the wheel does not expire
	// the entry - the eviction policy picks the expired, not yet swept entry as its victim.
	SizeEvict bool `json:"size_eviction,omitempty"`
	// JudgeBound (C04): the case is judged by the size bound only - once the maximum was lowered to 0 and one
	// more CleanUp ran, nothing may be present, whatever became of the racing read's extension.
	JudgeBound bool `json:"judge_bound,omitempty"`
}

var schedSites = sync.OnceValue(func() map[string]int {
	m := map[string]int{}
	for i, n := range otter.VerifSiteNames() {
		m[n] = i
	}
	return m
})

func runReadSched(sc *ReadSchedCase) (violation string) {
	clk := &parkClock{parked: make(chan struct{}, 1), resume: make(chan struct{}), tick: make(chan time.Time)}
	clk.now.Store(sc.Origin)
	var mu sync.Mutex
	var events []otter.DeletionEvent[int, int]
	o := &otter.Options[int, int]{
		Clock:            clk,
		ExpiryCalculator: otter.ExpiryAccessing[int, int](time.Duration(sc.TTL)),
		Executor:         func(fn func()) { fn() },
		OnDeletion: func(e otter.DeletionEvent[int, int]) {
			mu.Lock()
			events = append(events, e)
			mu.Unlock()
		},
	}
	if sc.Bound > 0 {
		o.MaximumSize = sc.Bound
	}
	c, err := otter.New(o)
	if err != nil {
		return "cannot build: " + err.Error()
	}
	defer c.StopAllGoroutines()
	const k, v = 7, 4242
	c.Set(k, v)
	c.CleanUp()
	t1 := sc.Origin + sc.TTL - sc.Before
	clk.now.Store(t1)
	for i := 0; i < sc.Others; i++ {
		c.Set(100+i, i)
	}
	done := make(chan struct{})
	clk.park.Store(true)
	go func() {
		defer close(done)
		switch sc.Reader {
		case 0:
			c.GetIfPresent(k)
		case 1:
			c.GetEntry(k)
		case 2:
			c.Compute(k, func(old int, found bool) (int, otter.ComputeOp) { return 0, otter.CancelOp })
		case 3:
			c.SetIfAbsent(k, 1)
		default:
			c.SetExpiresAfter(k, time.Duration(sc.TTL)) // an explicit extension instead of a read
		}
	}()
	select {
	case <-clk.parked:
	case <-time.After(10 * time.Second):
		return "inconclusive: the reader never sampled the clock"
	}
	// the reader holds t1 (the entry is alive then); maintenance runs after the old deadline
	t2 := sc.Origin + sc.TTL + sc.Past
	clk.now.Store(t2)
	released := false
	release := func() {
		if released {
			return
		}
		released = true
		close(clk.resume)
		select {
		case <-done:
		case <-time.After(180 * time.Second):
		}
	}
	site := -1
	switch sc.Release {
	case 1:
		site = schedSites()["drain.enter"]
	case 2, 3:
		site = schedSites()["evictNode.enter"]
	}
	switch {
	case site < 0:
		release()
	case sc.Release == 3:
		// between the decision taken in evictNode and the re-check under the bucket lock: the first
		// table computation that begins after evictNode was entered
		tableLoaded := schedSites()["map.compute.tableLoaded"]
		var armed atomic.Bool
		otter.VerifSetHook(func(s int) {
			if s == site {
				armed.Store(true)
			} else if s == tableLoaded && armed.Load() {
				release()
			}
		})
	default:
		otter.VerifSetHook(func(s int) {
			if s == site {
				release()
			}
		})
	}
	if sc.SizeEvict {
		c.SetMaximum(0)
	} else {
		c.CleanUp()
	}
	otter.VerifSetHook(nil)
	release()
	select {
	case <-done:
	default:
		return "the parked read did not return"
	}
	if sc.JudgeBound {
		c.CleanUp()
		n, ks := 0, []int{}
		for kk := range c.All() {
			n++
			ks = append(ks, kk)
		}
		if _, ok := c.GetIfPresent(k); ok || n > 0 {
			return fmt.Sprintf("the maximum was lowered to 0 at %d while a read that had sampled the clock at %d (deadline %d) was publishing its extended deadline (released at site %d); after it returned and one more CleanUp ran, %d entries are present (keys %v, GetIfPresent(%d) present=%v): the size bound does not hold and the entry cannot be evicted any more",
				t2, t1, sc.Origin+sc.TTL, sc.Release, n, ks, k, ok)
		}
		return ""
	}
	extended := t1 + sc.TTL // if the read was applied; otherwise the old deadline - both lie before the judging time
	t3 := extended + sc.Later
	clk.now.Store(t3)
	c.CleanUp()
	c.CleanUp()
	if _, ok := c.GetEntryQuietly(k); ok {
		return fmt.Sprintf("the entry (deadline %d, extended to %d by a read that raced with the sweep at %d) is visible at %d", sc.Origin+sc.TTL, extended, t2, t3)
	}
	want := 0
	for i := 0; i < sc.Others; i++ {
		if _, ok := c.GetEntryQuietly(100 + i); ok {
			want++
		}
	}
	mu.Lock()
	reports := 0
	var cause otter.DeletionCause
	for _, e := range events {
		if e.Key == k && e.Value == v && (e.Cause == otter.CauseExpiration || e.Cause == otter.CauseOverflow) {
			reports++
			cause = e.Cause
		}
	}
	mu.Unlock()
	if reports == 1 && cause == otter.CauseOverflow && sc.Bound == 0 {
		return fmt.Sprintf("the entry (deadline %d, extended to %d by a read that raced with the sweep at %d, released at site %d) was removed with cause Overflow in a cache without a size bound: no Expiration event was delivered for it", sc.Origin+sc.TTL, extended, t2, sc.Release)
	}
	if n := c.EstimatedSize(); n != want || reports != 1 {
		return fmt.Sprintf("CleanUp at %d, more than a tick after both the old deadline %d and the deadline %d extended by a read that raced with the sweep at %d (released at site %d): the entry is still counted (EstimatedSize %d, %d live entries) or not reported exactly once (%d reports)",
			t3, sc.Origin+sc.TTL, extended, t2, sc.Release, n, want, reports)
	}
	return ""
}

// ExtendCase is a deadline-extension scenario: many entries get their deadline extended (by an
// explicit override or by access-reset reads); the read events that would re-file their timers are
// buffered lossily, so some are dropped, and the sweep itself must re-file such timers. The clock
// then moves on in small steps with a CleanUp at each; the C13 rule is applied at every CleanUp.
type ExtendCase struct {
	Engine string `json:"engine"`
	Seed   uint64 `json:"seed"`
	Index  int    `json:"index"`
	Keys   int    `json:"keys"`
	TTL1   int64  `json:"ttl"`
	TTL2   int64  `json:"extended_ttl"`
	Access bool   `json:"access_reset_policy"` // extension by reads instead of SetExpiresAfter
	Step   int64  `json:"clock_step"`
	Bound  int    `json:"maximum_size"`
	Rounds int    `json:"extension_rounds"`
}

func runExtend(ec *ExtendCase) (violation string, judged int) {
	clk := NewManualClock(1_000_000_000)
	reported := map[int]bool{}
	o := &otter.Options[int, int]{
		Clock:    clk,
		Executor: func(fn func()) { fn() },
		OnDeletion: func(e otter.DeletionEvent[int, int]) {
			if e.Cause == otter.CauseExpiration || e.Cause == otter.CauseOverflow {
				reported[e.Key] = true
			}
		},
	}
	if ec.Access {
		o.ExpiryCalculator = otter.ExpiryAccessing[int, int](time.Duration(ec.TTL1))
	} else {
		o.ExpiryCalculator = otter.ExpiryWriting[int, int](time.Duration(ec.TTL1))
	}
	if ec.Bound > 0 {
		o.MaximumSize = ec.Bound
	}
	c, err := otter.New(o)
	if err != nil {
		return "cannot build: " + err.Error(), 0
	}
	defer c.StopAllGoroutines()
	deadline := make([]int64, ec.Keys)
	written := make([]int64, ec.Keys)
	for k := 0; k < ec.Keys; k++ {
		c.Set(k, k)
		deadline[k] = clk.NowNano() + ec.TTL1
		written[k] = clk.NowNano()
	}
	for round := 0; round < ec.Rounds; round++ {
		clk.Advance(ec.TTL1 / int64(ec.Rounds+2))
		for k := 0; k < ec.Keys; k++ {
			if ec.Access {
				if _, ok := c.GetIfPresent(k); ok {
					deadline[k] = clk.NowNano() + ec.TTL1
				}
			} else if _, ok := c.GetEntryQuietly(k); ok {
				c.SetExpiresAfter(k, time.Duration(ec.TTL2+int64(round)))
				deadline[k] = clk.NowNano() + ec.TTL2 + int64(round)
			}
		}
	}
	var last int64
	for _, d := range deadline {
		last = max(last, d)
	}
	for clk.NowNano() < last+4*tickNanos {
		clk.Advance(ec.Step)
		c.CleanUp()
		t := clk.NowNano()
		for k := 0; k < ec.Keys; k++ {
			if deadline[k] < t-tickNanos && written[k] < t-tickNanos {
				judged++
				_, present := c.GetEntryQuietly(k)
				if present {
					return fmt.Sprintf("key %d is visible at %d although its deadline was %d", k, t, deadline[k]), judged
				}
				if !reported[k] {
					return fmt.Sprintf("CleanUp at %d: key %d (deadline %d after an extension, written at %d) has not been removed and reported (EstimatedSize %d)", t, k, deadline[k], written[k], c.EstimatedSize()), judged
				}
			}
		}
	}
	if n := c.EstimatedSize(); n != 0 {
		return fmt.Sprintf("after every deadline passed by more than a tick EstimatedSize is still %d", n), judged
	}
	return "", judged
}

// RunSched runs the writer-vs-maintenance schedules of C13.
func RunSched(col *core.Collector, tier string, seed uint64, shard, nshards int, replayDir string) {
	col.Note("rule: schedule part: a writer is parked inside Clock.NowNano after it sampled T0, maintenance runs at T1 >> T0, the writer resumes, and a CleanUp more than one tick later must have removed and reported the entry; non-trivial = the deadline computed from T0 lies before T1; distinct = hash of the schedule parameters")
	n := 1500
	if tier == "thorough" {
		n = 60000
	}
	for i := shard; i < n; i += nshards {
		r := core.NewRng(core.Derive(seed, core.StrLabel("C13sched"), uint64(i)))
		sc := &SchedCase{Engine: "sched", Seed: seed, Index: i}
		sc.Origin = []int64{1_000_000_000, 1_790_000_000_000_000_000 + r.Int63()%1_000_000_000_000, 1}[r.Intn(3)]
		sc.TTL = int64(1) << uint(r.Intn(40))
		sc.TTL += r.Int63() % sc.TTL
		jumps := []int64{tickNanos * 2, tickNanos * 70, int64(1) << 37, int64(1) << 43, int64(1) << 48, int64(1) << 50}
		sc.Jump = sc.TTL + jumps[r.Intn(len(jumps))] + r.Int63()%tickNanos
		sc.Later = tickNanos*int64(2+r.Intn(200)) + 1
		sc.Async = r.Chance(1, 2)
		sc.Kind = r.Intn(3)
		sc.Others = r.Intn(5)
		if r.Chance(1, 3) {
			sc.Bound = 10 + r.Intn(100)
		}
		v := runSched(sc)
		col.Eval(1)
		if len(v) > 12 && v[:12] == "inconclusive" {
			col.Inconclusive(v)
			continue
		}
		col.NonTrivial(core.HashJSON(sc))
		col.Count("schedules", 1)
		if col.NumSamples() < 3 {
			col.Sample(map[string]any{"schedule": sc})
		}
		if v != "" {
			path := filepath.Join(replayDir, fmt.Sprintf("C13-sched-%x.json", core.HashJSON(sc)))
			data, _ := json.MarshalIndent(map[string]any{"sched_case": sc, "violation": v}, "", " ")
			os.WriteFile(path, data, 0o644)
			col.Violation(core.Violation{Property: "C13", Signature: "sched:" + sigOf(v), Detail: v + fmt.Sprintf(" (schedule %+v)", *sc), Replay: path})
			if col.NumViolations() >= 5 {
				break
			}
		}
	}
}

// RunExtend runs the deadline-extension scenarios of C13.
func RunExtend(col *core.Collector, tier string, seed uint64, shard, nshards int, replayDir string) {
	n := 400
	if tier == "thorough" {
		n = 20000
	}
	for i := shard; i < n; i += nshards {
		r := core.NewRng(core.Derive(seed, core.StrLabel("C13extend"), uint64(i)))
		ec := &ExtendCase{Engine: "extend", Seed: seed, Index: i}
		ec.Keys = 18 + r.Intn(60)
		ec.TTL1 = int64(2+r.Intn(25)) * 1_000_000_000
		ec.TTL2 = ec.TTL1 + int64(3+r.Intn(40))*1_000_000_000
		ec.Access = r.Chance(1, 2)
		ec.Step = []int64{tickNanos / 2, tickNanos, tickNanos + 12345, 2 * tickNanos, 3_000_000_000, 5 * tickNanos}[r.Intn(6)]
		ec.Rounds = 1 + r.Intn(3)
		if r.Chance(1, 4) {
			ec.Bound = ec.Keys + r.Intn(20)
		}
		v, judged := runExtend(ec)
		col.Eval(1)
		col.Count("extension.entries_judged", int64(judged))
		col.NonTrivial(core.HashJSON(ec))
		if v != "" {
			path := filepath.Join(replayDir, fmt.Sprintf("C13-extend-%x.json", core.HashJSON(ec)))
			data, _ := json.MarshalIndent(map[string]any{"extend_case": ec, "violation": v}, "", " ")
			os.WriteFile(path, data, 0o644)
			col.Violation(core.Violation{Property: "C13", Signature: "extend:" + sigOf(v), Detail: v + fmt.Sprintf(" (scenario %+v)", *ec), Replay: path})
			if col.NumViolations() >= 5 {
				break
			}
		}
	}
}

// RunReadSched runs the reader-vs-sweep schedules of C13.
func RunReadSched(col *core.Collector, tier string, seed uint64, shard, nshards int, replayDir string) {
	runReadSchedFor(col, "C13", tier, seed, shard, nshards, replayDir)
}

// RunReadSchedBound is the part of C04 that needs a schedule: the size-eviction variant of the reader-vs-sweep
// schedules (the victim of a size eviction has expired and is being extended by a racing read), judged by the
// bound after SetMaximum(0).
func RunReadSchedBound(col *core.Collector, tier string, seed uint64, shard, nshards int, replayDir string) {
	runReadSchedFor(col, "C04", tier, seed, shard, nshards, replayDir)
}

func runReadSchedFor(col *core.Collector, prop, tier string, seed uint64, shard, nshards int, replayDir string) {
	n := 1200
	if tier == "thorough" {
		n = 50000
	}
	if prop == "C04" {
		n /= 2
	}
	for i := shard; i < n; i += nshards {
		r := core.NewRng(core.Derive(seed, core.StrLabel("C13readsched"), uint64(i)))
		sc := &ReadSchedCase{Engine: "readsched", Seed: seed, Index: i}
		sc.Origin = []int64{1_000_000_000, 1_790_000_000_000_000_000 + r.Int63()%1_000_000_000_000}[r.Intn(2)]
		sc.TTL = int64(8+r.Intn(300)) * 1_000_000_000
		sc.Before = 1 + r.Int63()%2_000_000_000
		sc.Past = []int64{1, tickNanos / 2, tickNanos + 1, 3 * tickNanos}[r.Intn(4)] + r.Int63()%1000
		sc.Later = tickNanos*int64(2+r.Intn(100)) + 1
		sc.Release = r.Intn(4)
		sc.Others = r.Intn(4)
		sc.Reader = r.Intn(5)
		if r.Chance(1, 3) {
			sc.Bound = 10 + r.Intn(100)
		}
		if r.Chance(1, 4) || prop == "C04" {
			// size eviction of the expired, not yet swept entry: deadline and racing instant within one tick
			sc.SizeEvict = true
			sc.Bound = 10 + r.Intn(100)
			sc.Origin = sc.Origin&^(tickNanos-1) + 10
			sc.TTL = int64(1000 + r.Intn(1<<28))
			sc.Before = 1 + r.Int63()%(sc.TTL/2)
			sc.Past = r.Int63() % 1000
			sc.Others = 0 // the expired entry is the only possible victim
		}
		if prop == "C04" {
			sc.JudgeBound = true
			sc.Release = 2 + r.Intn(2)
			if r.Chance(1, 3) {
				sc.Release = r.Intn(4)
			}
			col.Count("size_eviction_read_schedules", 1)
		}
		v := runReadSched(sc)
		col.Eval(1)
		col.Count(fmt.Sprintf("read_schedule.release_at_%d", sc.Release), 1)
		if len(v) > 12 && v[:12] == "inconclusive" {
			col.Inconclusive(v)
			continue
		}
		col.NonTrivial(core.HashJSON(sc))
		if v != "" {
			path := filepath.Join(replayDir, fmt.Sprintf("%s-readsched-%x.json", prop, core.HashJSON(sc)))
			data, _ := json.MarshalIndent(map[string]any{"readsched_case": sc, "violation": v}, "", " ")
			os.WriteFile(path, data, 0o644)
			col.Violation(core.Violation{Property: prop, Signature: "readsched:" + sigOf(v), Detail: v + fmt.Sprintf(" (schedule %+v)", *sc), Replay: path})
			if col.NumViolations() >= 5 {
				break
			}
		}
	}
}

// ReplayReadSched re-executes a reader-vs-sweep schedule from a replay file.
func ReplayReadSched(col *core.Collector, data []byte, path string) error {
	var w struct {
		Case ReadSchedCase `json:"readsched_case"`
	}
	if err := json.Unmarshal(data, &w); err != nil {
		return err
	}
	v := runReadSched(&w.Case)
	col.Eval(1)
	fmt.Printf("schedule %+v\n", w.Case)
	if v != "" {
		fmt.Println("violation:", v)
		prop := "C13"
		if w.Case.JudgeBound {
			prop = "C04"
		}
		col.Violation(core.Violation{Property: prop, Signature: "readsched:" + sigOf(v), Detail: v, Replay: path})
	}
	return nil
}

// SweepRaceCase: two more ways in which a write can race with the sweep.
//
//	Kind 0: a burst of writes larger than the write buffer while the executor runs nothing: the writers
//	        that find the buffer full apply their own event; later the clock passes every deadline.
//	Kind 1: several entries have expired; while the sweep is removing the first of them (yield point
//	        evictNode.enter) another goroutine invalidates one of the expired entries.
//
// Afterwards a CleanUp more than a tick past every deadline must find nothing counted, and every entry
// must have been reported exactly once.
type SweepRaceCase struct {
	Engine string `json:"engine"`
	Seed   uint64 `json:"seed"`
	Index  int    `json:"index"`
	Kind   int    `json:"kind"`
	Keys   int    `json:"keys"`
	TTL    int64  `json:"ttl"`
	Later  int64  `json:"later"`
	Victim int    `json:"invalidated_key"`
	Bound  int    `json:"maximum_size"`
}

func runSweepRace(sc *SweepRaceCase) (violation string) {
	clk := NewManualClock(1_000_000_000)
	var mu sync.Mutex
	reports := map[int]int{}
	var wg sync.WaitGroup
	stalled := sc.Kind == 0
	o := &otter.Options[int, int]{
		Clock:            clk,
		ExpiryCalculator: otter.ExpiryWriting[int, int](time.Duration(sc.TTL)),
		OnDeletion: func(e otter.DeletionEvent[int, int]) {
			mu.Lock()
			reports[e.Key]++
			mu.Unlock()
		},
	}
	var queue []func()
	o.Executor = func(fn func()) {
		if stalled {
			mu.Lock()
			queue = append(queue, fn)
			mu.Unlock()
			return
		}
		fn()
	}
	if sc.Bound > 0 {
		o.MaximumSize = sc.Bound
	}
	c, err := otter.New(o)
	if err != nil {
		return "cannot build: " + err.Error()
	}
	defer c.StopAllGoroutines()
	for k := 0; k < sc.Keys; k++ {
		c.Set(k, k)
	}
	// the pool wakes up again
	mu.Lock()
	stalled = false
	q := queue
	queue = nil
	mu.Unlock()
	for _, fn := range q {
		fn()
	}
	clk.Advance(sc.TTL + 2*tickNanos + 5)
	if sc.Kind == 1 {
		fired := false
		site := schedSites()["evictNode.enter"]
		otter.VerifSetHook(func(s int) {
			if s == site && !fired {
				fired = true
				wg.Add(1)
				go func() {
					defer wg.Done()
					c.Invalidate(sc.Victim)
				}()
				wg.Wait()
			}
		})
	}
	c.CleanUp()
	otter.VerifSetHook(nil)
	wg.Wait()
	clk.Advance(sc.Later)
	c.CleanUp()
	c.CleanUp()
	if n := c.EstimatedSize(); n != 0 {
		return fmt.Sprintf("CleanUp at %d, more than a tick after every deadline (%d entries written at 1000000000 with ttl %d): EstimatedSize is still %d", clk.NowNano(), sc.Keys, sc.TTL, n)
	}
	mu.Lock()
	defer mu.Unlock()
	for k := 0; k < sc.Keys; k++ {
		if reports[k] != 1 {
			return fmt.Sprintf("key %d (expired, removed) was reported %d times to OnDeletion (%d keys; kind %d: 0 = burst beyond the write buffer with a stalled pool, 1 = Invalidate(%d) during the sweep)", k, reports[k], sc.Keys, sc.Kind, sc.Victim)
		}
	}
	return ""
}

// RunSweepRace runs the burst / invalidate-during-sweep cases of C13.
func RunSweepRace(col *core.Collector, tier string, seed uint64, shard, nshards int, replayDir string) {
	n := 160
	if tier == "thorough" {
		n = 6000
	}
	for i := shard; i < n; i += nshards {
		r := core.NewRng(core.Derive(seed, core.StrLabel("C13sweeprace"), uint64(i)))
		sc := &SweepRaceCase{Engine: "sweeprace", Seed: seed, Index: i, Kind: 1}
		sc.TTL = int64(1+r.Intn(600)) * 1_000_000_000
		sc.Later = tickNanos*int64(2+r.Intn(50)) + 1
		sc.Keys = 2 + r.Intn(40)
		if i%8 == 0 {
			sc.Kind = 0
			sc.Keys = 2048 + 1024 + r.Intn(1500) // more than the write buffer holds
		}
		sc.Victim = r.Intn(sc.Keys)
		if r.Chance(1, 3) {
			sc.Bound = sc.Keys + r.Intn(100)
		}
		v := runSweepRace(sc)
		col.Eval(1)
		col.Count(fmt.Sprintf("sweep_race.kind_%d", sc.Kind), 1)
		col.NonTrivial(core.HashJSON(sc))
		if v != "" {
			path := filepath.Join(replayDir, fmt.Sprintf("C13-sweeprace-%x.json", core.HashJSON(sc)))
			data, _ := json.MarshalIndent(map[string]any{"sweeprace_case": sc, "violation": v}, "", " ")
			os.WriteFile(path, data, 0o644)
			col.Violation(core.Violation{Property: "C13", Signature: "sweeprace:" + sigOf(v), Detail: v + fmt.Sprintf(" (case %+v)", *sc), Replay: path})
			if col.NumViolations() >= 5 {
				break
			}
		}
	}
}

// ReplaySweepRace re-executes such a case from a replay file.
func ReplaySweepRace(col *core.Collector, data []byte, path string) error {
	var w struct {
		Case SweepRaceCase `json:"sweeprace_case"`
	}
	if err := json.Unmarshal(data, &w); err != nil {
		return err
	}
	v := runSweepRace(&w.Case)
	col.Eval(1)
	fmt.Printf("case %+v\n", w.Case)
	if v != "" {
		fmt.Println("violation:", v)
		col.Violation(core.Violation{Property: "C13", Signature: "sweeprace:" + sigOf(v), Detail: v, Replay: path})
	}
	return nil
}

// ReplaySched re-executes a schedule from a replay file.
func ReplaySched(col *core.Collector, data []byte, path string) error {
	var w struct {
		Case SchedCase `json:"sched_case"`
	}
	if err := json.Unmarshal(data, &w); err != nil {
		return err
	}
	v := runSched(&w.Case)
	col.Eval(1)
	fmt.Printf("schedule %+v\n", w.Case)
	if v != "" {
		fmt.Println("violation:", v)
		col.Violation(core.Violation{Property: "C13", Signature: "sched:" + sigOf(v), Detail: v, Replay: path})
	}
	return nil
}

// ReplayExtend re-executes a deadline-extension scenario from a replay file.
func ReplayExtend(col *core.Collector, data []byte, path string) error {
	var w struct {
		Case ExtendCase `json:"extend_case"`
	}
	if err := json.Unmarshal(data, &w); err != nil {
		return err
	}
	v, _ := runExtend(&w.Case)
	col.Eval(1)
	fmt.Printf("scenario %+v\n", w.Case)
	if v != "" {
		fmt.Println("violation:", v)
		col.Violation(core.Violation{Property: "C13", Signature: "extend:" + sigOf(v), Detail: v, Replay: path})
	}
	return nil
}
