#!/bin/bash
# Builds the driver (bin/vcheck) and warms the Go build cache. Offline.
cd "$(dirname "$0")" || exit 2
unset GOSUMDB
export GOFLAGS=-mod=mod GOPROXY=off GOTOOLCHAIN=auto
mkdir -p bin .build/out replays evidence
(cd harness && go build -o ../bin/vcheck ./cmd/vcheck) || exit 2
(cd harness && go build -tags verif -o ../.build/vwork-warm ./cmd/vwork && go build -tags verif -race -o ../.build/vwork-warm-race ./cmd/vwork) || exit 2
rm -f .build/vwork-warm .build/vwork-warm-race
echo "setup ok"
